package sim

import (
	"encoding/json"
)

// RunSpec is the complete, explicit description of one simulated execution.
// A run is a pure function of (RunSpec, code under test).
type RunSpec struct {
	Property string     `json:"property"`
	Gen      string     `json:"gen,omitempty"` // generator that made it (informational)
	Seed     uint64     `json:"seed"`
	World    WorldSpec  `json:"world"`
	Requests []ReqSpec  `json:"requests"`
	Sched    SchedSpec  `json:"sched"`
	Faults   []FaultSpec `json:"faults,omitempty"`
	MapSeed  uint64     `json:"map_seed"`
	MaxSteps int        `json:"max_steps,omitempty"`
	Note     string     `json:"note,omitempty"`
	Expect   json.RawMessage `json:"expect,omitempty"` // generator-side expectations handed to the oracle
}

type SchedSpec struct {
	Strategy string   `json:"strategy"`
	Seed     uint64   `json:"seed,omitempty"`
	Depth    int      `json:"depth,omitempty"`   // pct change points
	Horizon  int      `json:"horizon,omitempty"` // pct: expected number of steps
	Explicit []string `json:"explicit,omitempty"`
}

// FaultSpec addresses one fault by site, never by draw order.
type FaultSpec struct {
	Site string `json:"site"`           // "<task>|<method>|<nth>"
	Kind string `json:"kind"`           // db_err tp_err cb_err auth_err auth_deny block_err blocked net_drop net_dup http_err clock_jump store_corrupt doc_corrupt
	Arg  string `json:"arg,omitempty"`  // kind specific (status code, mutation, jump seconds)
}

type WorldSpec struct {
	Servers []ServerSpec `json:"servers"`
	// Remote documents served by hosts that are not simulated servers.
	Remote []DocSpec `json:"remote,omitempty"`
	// Fate per IRI for Dereference, known to the reference models:
	// "unreachable" | "nonjson" | "unknowntype" | "notobject"
	Fate map[string]string `json:"fate,omitempty"`
	Tx   *TxSpec           `json:"tx,omitempty"` // txsim: one shared HttpSigTransport
}

type DocSpec struct {
	ID  string          `json:"id"`
	Doc json.RawMessage `json:"doc"`
}

type ServerSpec struct {
	Host         string            `json:"host"`
	Social       bool              `json:"social"`
	Federating   bool              `json:"federating"`
	Actors       []string          `json:"actors"` // local actor names
	Docs         []DocSpec         `json:"docs,omitempty"`
	OnFollow     int               `json:"on_follow"`
	FedCb        map[string]string `json:"fed_cb,omitempty"` // type -> "wrapped" | "other"
	SocCb        map[string]string `json:"soc_cb,omitempty"`
	DeliverDepth int               `json:"deliver_depth"`
	ForwardDepth int               `json:"forward_depth"`
	Filter       string            `json:"filter,omitempty"` // all | none | first | odd
	StoredInbox  map[string]string `json:"stored_inbox,omitempty"` // actor IRI -> inbox IRI returned by InboxForActor
	GetMissing   string            `json:"get_missing,omitempty"`  // "error" (default) | "nil"
	Transport    string            `json:"transport,omitempty"`    // "sync" (default) | "queued"
	Blocked      []string          `json:"blocked,omitempty"`
	ClockBase    int64             `json:"clock_base,omitempty"` // unix seconds
	ClockSkewS   int64             `json:"clock_skew_s,omitempty"`
	Zone         int               `json:"zone,omitempty"` // offset seconds east of UTC
	Scheme       string            `json:"scheme,omitempty"`     // scheme this server is served under ("" = https); its own IRIs use it
	MintScheme   string            `json:"mint_scheme,omitempty"` // scheme of the ids Database.NewID mints ("" = the serving scheme)
	ClockFine    bool              `json:"clock_fine,omitempty"` // clock advances by 1..1500 ms per read instead of 1 s
	Custom       map[string]string `json:"custom,omitempty"`     // non-nil: the actor is pub.NewCustomActor over a scripted DelegateActor; method -> outcome
}

type ReqSpec struct {
	ID          string          `json:"id"`
	Server      string          `json:"server"` // host
	Kind        string          `json:"kind"`   // postInbox postOutbox getInbox getOutbox handler send
	Actor       string          `json:"actor,omitempty"`
	Path        string          `json:"path,omitempty"` // handler: path of the resource
	Method      string          `json:"method,omitempty"`
	ContentType *string         `json:"content_type,omitempty"`
	Accept      *string         `json:"accept,omitempty"`
	Body        json.RawMessage `json:"body,omitempty"`
	RawBody     *string         `json:"raw_body,omitempty"` // non-JSON bodies
	Auth        string          `json:"auth,omitempty"`     // ok (default) | deny | err
	After       []string        `json:"after,omitempty"`
	Recipients  []string        `json:"recipients,omitempty"` // txsim
	AfterCrash  bool            `json:"after_crash,omitempty"` // starts only after the simulated crash (e.g. a peer's redelivery)
	CtxDone     string          `json:"ctx_done,omitempty"`    // "canceled" | "deadline": the request's context is already done when the request starts
}

func (r *RunSpec) Clone() *RunSpec {
	b, _ := json.Marshal(r)
	var c RunSpec
	if err := json.Unmarshal(b, &c); err != nil {
		panic(err)
	}
	return &c
}

// remoteDoc: the document a remote host serves for iri, fates and faults aside.
func (w *WorldSpec) remoteDoc(iri string) (J, bool) {
	for _, d := range w.Remote {
		if d.ID == iri {
			m, err := parseJ(d.Doc)
			return m, err == nil
		}
	}
	return nil, false
}
