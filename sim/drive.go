package sim

import (
	"syscall"
	"runtime"
	"sync/atomic"
	"crypto/sha256"
	"encoding/hex"
	"encoding/json"
	"fmt"
	"os"
	"sort"
	"strings"
	"testing"
	"time"
)

// PropDef describes how one property is explored.
type PropDef struct {
	ID     string
	Level  string
	Engine string
	Rule   string
	// Drive explores case number k (a case may execute many runs).
	Drive func(c *DriveCtx, r *Rng, k int)
	// Oracle: end-of-run checks for this property (monitors run always).
	Oracle func(c *DriveCtx, res *Result)
	// QuickCases: number of cases of the quick tier (thorough is time-boxed).
	QuickCases int
	// Exhaustive marks the quick tier as a complete enumeration of its corpus × single faults.
	Exhaustive bool
	Assumptions []string
	QuickBudgetS, ThoroughBudgetS int
	QuickShards int
	ExpectProbes []string
}

func dumpProps() {
	out := J{}
	for id, p := range props {
		out[id] = J{"level": p.Level, "engine": p.Engine, "rule": p.Rule, "assumptions": p.Assumptions, "exhaustive_quick": p.Exhaustive,
			"quick_budget_s": p.QuickBudgetS, "thorough_budget_s": p.ThoroughBudgetS, "quick_shards": p.QuickShards, "expect_probes": p.ExpectProbes}
	}
	fmt.Println("PROPS " + string(mustJSON(out)))
}

var props = map[string]*PropDef{}

func register(p *PropDef) { props[p.ID] = p }

// Found is one violation with everything needed to replay it.
type Found struct {
	Viol  Violation `json:"violation"`
	Spec  *RunSpec  `json:"spec"`
	Hash  string    `json:"log_hash"`
	Steps int       `json:"steps"`
	Hang  bool      `json:"hang,omitempty"`
}

type ShardOut struct {
	Property   string         `json:"property"`
	Tier       string         `json:"tier"`
	Seed       uint64         `json:"seed"`
	Shard      string         `json:"shard"`
	Cases      int            `json:"cases"`
	Runs       int            `json:"runs"`
	Steps      int            `json:"steps"`
	SimNanos   int64          `json:"sim_nanos"`
	Distinct   []string       `json:"distinct"` // shape hashes of non-trivial runs
	Fired      map[string]int `json:"fired"`
	Probes     map[string]int `json:"probes"`
	Preempt    map[string]int `json:"preempt_hist"`
	Verdicts   map[string]int `json:"verdicts"`
	Found      []Found        `json:"found"`
	Other      map[string]int `json:"other_property_hits"`
	Samples    []interface{}  `json:"samples"`
	Harness    []string       `json:"harness_errors"`
	Uncontrolled map[string]int `json:"uncontrolled"`
	WallS      float64        `json:"wall_s"`
	Inconclusive int          `json:"inconclusive"`
	MaxTasks   int            `json:"max_tasks"`
	SweepSites int            `json:"sweep_sites"`
}

type DriveCtx struct {
	T        *testing.T
	P        *PropDef
	Tier     string
	Out      *ShardOut
	distinct map[string]bool
	seenSig  map[string]bool
	deadline time.Time
	stop     bool
	maxFound int
}

func (c *DriveCtx) Expired() bool { return c.stop || time.Now().After(c.deadline) }

// Exec runs one spec, applies monitors and the property oracle, and accounts for it.
func (c *DriveCtx) Exec(spec *RunSpec) *Result {
	if spec.Property == "" {
		spec.Property = c.P.ID
	}
	watchSpec.Store(spec)
	res := Execute(c.T, spec)
	watchSpec.Store(nil)
	if res.Harness == "" && c.P.Oracle != nil && res.Sim.World != nil {
		func() {
			defer func() {
				if r := recover(); r != nil {
					buf := make([]byte, 4096)
					res.Harness = fmt.Sprintf("oracle panic: %v\n%s", r, buf[:runtime.Stack(buf, false)])
				}
			}()
			c.P.Oracle(c, res)
		}()
		res.Viol = res.Sim.Viol
	}
	c.account(res)
	if d := os.Getenv("VERIF_DUMP_GEN"); d != "" && strings.Contains(spec.Gen, d) {
		// debugging aid (never set by a registered command): keep the spec and the outcome of matching runs
		var st []string
		for _, t := range res.Sim.tasks {
			st = append(st, fmt.Sprintf("%s handled=%v err=%v status=%d panic=%v", t.ID, t.Handled, t.Err, func() int { if t.Rec == nil { return -1 }; return t.Rec.Status }(), t.Panic))
		}
		f, _ := os.OpenFile("/tmp/verif-dump.jsonl", os.O_APPEND|os.O_CREATE|os.O_WRONLY, 0644)
		fmt.Fprintf(f, "%s\n", mustJSON(J{"gen": spec.Gen, "tasks": st, "spec": spec}))
		f.Close()
	}
	return res
}

func (res *Result) shape() string {
	h := sha256.New()
	// the scenario is part of what makes a run distinct: same trace shape on another input is another case
	fmt.Fprintf(h, "%s\n", canonJSON(J{"r": mustJSON(res.Spec.Requests), "w": mustJSON(res.Spec.World), "f": mustJSON(res.Spec.Faults)}))
	for _, e := range res.Sim.Log {
		fmt.Fprintf(h, "%s|%s|%v|%s\n", e.Task, e.Kind, e.Fault, resClass(e.Res))
	}
	return hex.EncodeToString(h.Sum(nil))[:16]
}

func resClass(r string) string {
	switch r {
	case "", "ok", "err", "true", "false", "nil", "missing", "deny":
		return r
	}
	if strings.HasPrefix(r, "handled=") {
		// keep handled/status, drop error text
		if i := strings.Index(r, " err="); i >= 0 {
			return r[:i] + " err"
		}
		return r
	}
	return "v"
}

func (c *DriveCtx) account(res *Result) {
	o := c.Out
	o.Runs++
	o.Steps += res.Steps
	o.SimNanos += res.Sim.now
	if len(res.Tasks) > o.MaxTasks {
		o.MaxTasks = len(res.Tasks)
	}
	for k, v := range res.Sim.Fired {
		o.Fired[k] += v
	}
	for k, v := range res.Sim.Probes {
		o.Probes[k] += v
	}
	for k, v := range res.Sim.Uncontrolled {
		o.Uncontrolled[k] += v
	}
	o.Preempt[fmt.Sprint(min(res.Sim.Preempt, 9))]++
	v := res.Verdict
	if v == "" {
		v = "completed"
	}
	o.Verdicts[v]++
	if res.Harness != "" {
		o.Harness = append(o.Harness, res.Harness)
		return
	}
	if res.Verdict == "budget" && c.P.ID != "C11" {
		o.Harness = append(o.Harness, "step budget exhausted: "+res.Spec.Gen)
	}
	if res.Steps > 3 {
		sh := res.shape()
		if !c.distinct[sh] {
			c.distinct[sh] = true
			o.Distinct = append(o.Distinct, sh)
			if len(o.Samples) < 4 {
				o.Samples = append(o.Samples, sampleOf(res))
			}
		}
	}
	c.flush(res)
}

// flush records violations added to the run after Exec returned (post-run oracles).
func (c *DriveCtx) flush(res *Result) {
	o := c.Out
	res.Viol = res.Sim.Viol
	for _, vio := range res.Viol {
		if vio.Property != c.P.ID {
			o.Other[vio.Sig()]++
			continue
		}
		if c.seenSig[vio.Sig()] {
			continue
		}
		c.seenSig[vio.Sig()] = true
		sp := res.Spec.Clone()
		sp.Sched = SchedSpec{Strategy: "explicit", Explicit: res.Sched}
		o.Found = append(o.Found, Found{Viol: vio, Spec: sp, Hash: res.LogHash, Steps: res.Steps})
		if len(o.Found) >= c.maxFound {
			c.stop = true
		}
	}
}

func sampleOf(res *Result) interface{} {
	var reqs []string
	for _, r := range res.Spec.Requests {
		reqs = append(reqs, fmt.Sprintf("%s:%s@%s %s", r.ID, r.Kind, r.Server, trunc(string(r.Body), 160)))
	}
	var outcome []string
	for _, t := range res.Tasks {
		if t.Req != nil {
			e := ""
			if t.Err != nil {
				e = " err"
			}
			outcome = append(outcome, fmt.Sprintf("%s:%s handled=%v status=%d%s", t.ID, t.EntryKind, t.Handled, statusOf(t), e))
		}
	}
	var faults []string
	for _, f := range res.Spec.Faults {
		faults = append(faults, f.Site+"="+f.Kind)
	}
	return J{"gen": res.Spec.Gen, "requests": reqs, "faults": faults, "schedule": compress(res.Sched), "outcome": outcome,
		"steps": res.Steps, "verdict": res.Verdict}
}

func statusOf(t *Task) int {
	if t.Rec == nil {
		return 0
	}
	return t.Rec.Status
}

// compress renders a schedule as run-length encoded task ids.
func compress(s []string) string {
	var b strings.Builder
	for i := 0; i < len(s); {
		j := i
		for j < len(s) && s[j] == s[i] {
			j++
		}
		if b.Len() > 0 {
			b.WriteByte(' ')
		}
		fmt.Fprintf(&b, "%s*%d", s[i], j-i)
		i = j
	}
	return trunc(b.String(), 400)
}

// singleFaultSweep: fault-free run, then one run per fallible call with
// that call failing. Returns the number of sites swept.
func (c *DriveCtx) singleFaultSweep(base func() *RunSpec, kindFor func(site string) string) int {
	clean := c.Exec(base())
	sites := append([]string(nil), clean.Sim.Sites...)
	n := 0
	for _, site := range sites {
		if c.Expired() {
			break
		}
		sp := base()
		sp.Faults = append(sp.Faults, FaultSpec{Site: site, Kind: kindFor(site)})
		sp.Gen += " +fault " + site
		r := c.Exec(sp)
		n++
		if r.Sim.Fired[kindFor(site)] == 0 && r.Harness == "" {
			c.Out.Harness = append(c.Out.Harness, fmt.Sprintf("sweep fault at %s did not fire (%s)", site, sp.Gen))
		}
	}
	c.Out.SweepSites += n
	return n
}

func faultKindFor(site string) string {
	switch {
	case strings.Contains(site, "|db."):
		return "db_err"
	case strings.Contains(site, "|tp."):
		return "tp_err"
	case strings.Contains(site, "|app.Authenticate"):
		return "auth_err"
	case strings.Contains(site, "|app.Blocked"):
		return "block_err"
	case strings.Contains(site, "|app.NewTransport"):
		return "tp_err"
	}
	return "cb_err"
}

// ---- wall-clock watchdog ---------------------------------------------------------

var watchSpec atomic.Pointer[RunSpec]

// startWatchdog: if a run makes no scheduling step for hangS seconds of real time, a task is spinning without
// reaching a seam or returning (the scheduler cannot pre-empt it). onHang must not return.
func startWatchdog(onHang func(sp *RunSpec, secs int)) {
	hangS := envInt("VERIF_HANG_S", 20)
	go func() {
		last, since, cpu0 := int64(-1), time.Now(), cpuSeconds()
		for {
			time.Sleep(500 * time.Millisecond)
			hb := heartbeat.Load()
			sp := watchSpec.Load()
			if sp == nil || hb != last {
				last, since, cpu0 = hb, time.Now(), cpuSeconds()
				continue
			}
			// a busy loop burns CPU; a process that is merely starved on a loaded machine does not: both conditions are required
			if time.Since(since) > time.Duration(hangS)*time.Second && cpuSeconds()-cpu0 > float64(hangS)/2 {
				onHang(sp, hangS)
			}
		}
	}()
}

func cpuSeconds() float64 {
	var ru syscall.Rusage
	if err := syscall.Getrusage(syscall.RUSAGE_SELF, &ru); err != nil {
		return 0
	}
	return float64(ru.Utime.Sec+ru.Stime.Sec) + float64(ru.Utime.Usec+ru.Stime.Usec)/1e6
}

func hangViolation(secs int) Violation {
	return Violation{Property: "C11", Inv: "no-return", Site: "cpu-loop", Detail: fmt.Sprintf("a task ran for more than %d s of real time without reaching a seam call or returning (busy loop)", secs)}
}

// ---- shard main ---------------------------------------------------------------

func envInt(name string, def int) int {
	if v := os.Getenv(name); v != "" {
		var n int
		if _, err := fmt.Sscan(v, &n); err == nil {
			return n
		}
	}
	return def
}

func runShard(t *testing.T) {
	pid := os.Getenv("VERIF_PROP")
	p := props[pid]
	if p == nil {
		fmt.Fprintf(os.Stderr, "unknown property %q\n", pid)
		os.Exit(2)
	}
	tier := os.Getenv("VERIF_TIER")
	if tier == "" {
		tier = "quick"
	}
	var seed uint64
	fmt.Sscan(os.Getenv("VERIF_SEED"), &seed)
	shard, nshard := 0, 1
	fmt.Sscanf(os.Getenv("VERIF_SHARD"), "%d/%d", &shard, &nshard)
	budget := envInt("VERIF_BUDGET_S", 60)
	cases := envInt("VERIF_CASES", p.QuickCases)
	out := &ShardOut{Property: pid, Tier: tier, Seed: seed, Shard: fmt.Sprintf("%d/%d", shard, nshard),
		Fired: map[string]int{}, Probes: map[string]int{}, Preempt: map[string]int{}, Verdicts: map[string]int{},
		Other: map[string]int{}, Uncontrolled: map[string]int{}}
	c := &DriveCtx{T: t, P: p, Tier: tier, Out: out, distinct: map[string]bool{}, seenSig: map[string]bool{},
		deadline: time.Now().Add(time.Duration(budget) * time.Second), maxFound: 6}
	start := time.Now()
	flushOut := func() {
		out.WallS = time.Since(start).Seconds()
		sort.Strings(out.Distinct)
		b, _ := json.Marshal(out)
		if path := os.Getenv("VERIF_OUT"); path != "" {
			if err := os.WriteFile(path, b, 0o644); err != nil {
				fmt.Fprintln(os.Stderr, err)
				os.Exit(2)
			}
		} else {
			os.Stdout.Write(b)
		}
	}
	startWatchdog(func(sp *RunSpec, secs int) {
		if pid == "C11" {
			out.Found = append(out.Found, Found{Viol: hangViolation(secs), Spec: sp.Clone(), Hash: "hang", Steps: 1, Hang: true})
			out.Runs++
		} else {
			out.Harness = append(out.Harness, "a run hung (busy loop in a task; C11 class): "+sp.Gen)
		}
		flushOut()
		os.Exit(0)
	})
	for k := shard; ; k += nshard {
		if tier == "quick" && k >= cases {
			break
		}
		if tier != "quick" && cases > 0 && os.Getenv("VERIF_CASES") != "" && k >= cases {
			break
		}
		if c.Expired() {
			break
		}
		r := NewRng(seed).Fork(fmt.Sprintf("%s/case/%d", pid, k))
		p.Drive(c, r, k)
		out.Cases++
	}
	flushOut()
}

// runReplay re-executes a replay file; prints one JSON line with what happened.
func runReplay(t *testing.T) {
	b, err := os.ReadFile(os.Getenv("VERIF_REPLAY"))
	if err != nil {
		fmt.Fprintln(os.Stderr, err)
		os.Exit(2)
	}
	var f Found
	if err := json.Unmarshal(b, &f); err != nil || f.Spec == nil {
		fmt.Fprintln(os.Stderr, "bad replay file:", err)
		os.Exit(2)
	}
	p := props[f.Spec.Property]
	if p == nil {
		fmt.Fprintln(os.Stderr, "unknown property in replay file")
		os.Exit(2)
	}
	out := &ShardOut{Fired: map[string]int{}, Probes: map[string]int{}, Preempt: map[string]int{}, Verdicts: map[string]int{}, Other: map[string]int{}, Uncontrolled: map[string]int{}}
	c := &DriveCtx{T: t, P: p, Out: out, distinct: map[string]bool{}, seenSig: map[string]bool{}, deadline: time.Now().Add(time.Hour), maxFound: 100}
	startWatchdog(func(sp *RunSpec, secs int) {
		hv := hangViolation(secs)
		rb, _ := json.Marshal(J{"reproduced": hv.Sig() == f.Viol.Sig(), "log_hash": "hang", "hash_matches": f.Hash == "hang", "violations": []Violation{hv}, "harness": "", "diverged": 0})
		fmt.Println("REPLAY " + string(rb))
		os.Exit(0)
	})
	spec := f.Spec.Clone()
	if v := os.Getenv("VERIF_REPLAY_SCHED"); v != "" {
		// the same requests, world and faults under another seeded schedule (used to recognise a known finding on a tree whose
		// call sequence differs from the one the replay file's explicit schedule was recorded on)
		var seed uint64
		fmt.Sscan(v, &seed)
		spec.Sched = SchedSpec{Strategy: "random", Seed: seed}
	}
	res := c.Exec(spec)
	same := false
	for _, v := range res.Viol {
		if v.Sig() == f.Viol.Sig() {
			same = true
		}
	}
	if os.Getenv("VERIF_REPLAY_LOG") != "" {
		for _, e := range res.Sim.Log {
			eb, _ := json.Marshal(e)
			fmt.Println(trunc(string(eb), 600))
		}
	}
	rb, _ := json.Marshal(J{"reproduced": same, "log_hash": res.LogHash, "hash_matches": res.LogHash == f.Hash, "violations": res.Viol, "harness": res.Harness, "diverged": res.Sim.chooser.Diverged})
	fmt.Println("REPLAY " + string(rb))
}
