package sim

import (
	"encoding/json"
	"fmt"
	"os"
	"strings"
	"testing"
	"time"
)

// minimise shrinks a failing spec while the same violation signature persists.
type minimiser struct {
	c     *DriveCtx
	sig   string
	execs int
	max   int
}

func (m *minimiser) fails(sp *RunSpec) (*Result, bool) {
	if m.execs >= m.max {
		return nil, false
	}
	m.execs++
	m.c.Out = &ShardOut{Fired: map[string]int{}, Probes: map[string]int{}, Preempt: map[string]int{}, Verdicts: map[string]int{}, Other: map[string]int{}, Uncontrolled: map[string]int{}}
	m.c.seenSig = map[string]bool{}
	m.c.distinct = map[string]bool{}
	m.c.stop = false
	res := m.c.Exec(sp.Clone())
	if res.Harness != "" {
		return res, false
	}
	for _, v := range res.Viol {
		if v.Sig() == m.sig {
			return res, true
		}
	}
	return res, false
}

func dropReq(sp *RunSpec, i int) *RunSpec {
	c := sp.Clone()
	id := c.Requests[i].ID
	c.Requests = append(c.Requests[:i], c.Requests[i+1:]...)
	for j := range c.Requests {
		var a []string
		for _, x := range c.Requests[j].After {
			if x != id {
				a = append(a, x)
			}
		}
		c.Requests[j].After = a
	}
	var ex []string
	for _, e := range c.Sched.Explicit {
		if e == id || strings.HasPrefix(e, id+".") {
			continue
		}
		ex = append(ex, e)
	}
	c.Sched.Explicit = ex
	var fs []FaultSpec
	for _, f := range c.Faults {
		if strings.HasPrefix(f.Site, id+"|") || strings.HasPrefix(f.Site, id+".") {
			continue
		}
		fs = append(fs, f)
	}
	c.Faults = fs
	return c
}

func (m *minimiser) run(sp *RunSpec) *RunSpec {
	cur := sp.Clone()
	progress := true
	for progress && m.execs < m.max {
		progress = false
		// 1. drop requests, last first
		for i := len(cur.Requests) - 1; i >= 0 && len(cur.Requests) > 1; i-- {
			if i >= len(cur.Requests) {
				continue
			}
			cand := dropReq(cur, i)
			if _, ok := m.fails(cand); ok {
				cur = cand
				progress = true
			}
		}
		// 2. drop faults
		for i := len(cur.Faults) - 1; i >= 0; i-- {
			cand := cur.Clone()
			cand.Faults = append(cand.Faults[:i], cand.Faults[i+1:]...)
			if _, ok := m.fails(cand); ok {
				cur = cand
				progress = true
			}
		}
		// 3. schedule: whole default, then shorter prefixes, then single entries
		if len(cur.Sched.Explicit) > 0 {
			cand := cur.Clone()
			cand.Sched.Explicit = nil
			if _, ok := m.fails(cand); ok {
				cur = cand
				progress = true
			} else {
				lo, hi := 0, len(cur.Sched.Explicit)
				for lo < hi {
					mid := (lo + hi) / 2
					cand := cur.Clone()
					cand.Sched.Explicit = cand.Sched.Explicit[:mid]
					if _, ok := m.fails(cand); ok {
						hi = mid
					} else {
						lo = mid + 1
					}
				}
				if hi < len(cur.Sched.Explicit) {
					cur.Sched.Explicit = cur.Sched.Explicit[:hi]
					progress = true
				}
				for i := len(cur.Sched.Explicit) - 1; i >= 0 && i > len(cur.Sched.Explicit)-200; i-- {
					if cur.Sched.Explicit[i] == "" {
						continue
					}
					cand := cur.Clone()
					cand.Sched.Explicit[i] = ""
					if _, ok := m.fails(cand); ok {
						cur = cand
						progress = true
					}
				}
			}
		}
		// 4. world: drop documents, remote documents, fates, second server
		for si := range cur.World.Servers {
			for i := len(cur.World.Servers[si].Docs) - 1; i >= 0; i-- {
				cand := cur.Clone()
				d := cand.World.Servers[si].Docs
				cand.World.Servers[si].Docs = append(d[:i], d[i+1:]...)
				if _, ok := m.fails(cand); ok {
					cur = cand
					progress = true
				}
			}
		}
		for i := len(cur.World.Remote) - 1; i >= 0; i-- {
			cand := cur.Clone()
			cand.World.Remote = append(cand.World.Remote[:i], cand.World.Remote[i+1:]...)
			if _, ok := m.fails(cand); ok {
				cur = cand
				progress = true
			}
		}
		for _, k := range sortedKeys(cur.World.Fate) {
			cand := cur.Clone()
			delete(cand.World.Fate, k)
			if _, ok := m.fails(cand); ok {
				cur = cand
				progress = true
			}
		}
		for si := len(cur.World.Servers) - 1; si >= 1; si-- {
			used := false
			for _, r := range cur.Requests {
				if r.Server == cur.World.Servers[si].Host {
					used = true
				}
			}
			if used {
				continue
			}
			cand := cur.Clone()
			cand.World.Servers = append(cand.World.Servers[:si], cand.World.Servers[si+1:]...)
			if _, ok := m.fails(cand); ok {
				cur = cand
				progress = true
			}
		}
		// 5. request bodies: drop top-level members, shrink lists
		for ri := range cur.Requests {
			if cur.Requests[ri].Body == nil {
				continue
			}
			body, err := parseJ(cur.Requests[ri].Body)
			if err != nil {
				continue
			}
			for _, k := range sortedKeys(body) {
				if k == "type" || k == "@context" {
					continue
				}
				nb := cloneJ(body)
				if l, ok := nb[k].([]interface{}); ok && len(l) > 1 {
					nb[k] = l[:len(l)-1]
				} else {
					delete(nb, k)
				}
				cand := cur.Clone()
				cand.Requests[ri].Body = mustJSON(nb)
				if _, ok := m.fails(cand); ok {
					cur = cand
					body = nb
					progress = true
				}
			}
		}
		// 6. map order seed
		if cur.MapSeed != 0 {
			cand := cur.Clone()
			cand.MapSeed = 0
			if _, ok := m.fails(cand); ok {
				cur = cand
				progress = true
			}
		}
	}
	return cur
}

func runMinimize(t *testing.T) {
	b, err := os.ReadFile(os.Getenv("VERIF_REPLAY"))
	if err != nil {
		fmt.Fprintln(os.Stderr, err)
		os.Exit(2)
	}
	var f Found
	if err := json.Unmarshal(b, &f); err != nil || f.Spec == nil {
		fmt.Fprintln(os.Stderr, "bad replay file:", err)
		os.Exit(2)
	}
	p := props[f.Spec.Property]
	c := &DriveCtx{T: t, P: p, deadline: time.Now().Add(time.Hour), maxFound: 1000}
	m := &minimiser{c: c, sig: f.Viol.Sig(), max: envInt("VERIF_MIN_EXECS", 2000)}
	startWatchdog(func(sp *RunSpec, secs int) {
		fmt.Println("MINIMIZE " + string(mustJSON(J{"ok": false, "reason": "a candidate hung; hangs are not minimised"})))
		os.Exit(0)
	})
	if f.Hang {
		fmt.Println("MINIMIZE " + string(mustJSON(J{"ok": false, "reason": "hangs are not minimised"})))
		return
	}
	if _, ok := m.fails(f.Spec); !ok {
		fmt.Println("MINIMIZE " + string(mustJSON(J{"ok": false, "reason": "original does not reproduce in this process"})))
		return
	}
	small := m.run(f.Spec)
	res, ok := m.fails(small)
	if !ok {
		// execution budget ran out exactly here; fall back to the original
		small = f.Spec
		res, _ = m.fails(small)
	}
	out := Found{Spec: small.Clone(), Hash: res.LogHash, Steps: res.Steps}
	out.Spec.Sched = SchedSpec{Strategy: "explicit", Explicit: res.Sched}
	for _, v := range res.Viol {
		if v.Sig() == m.sig {
			out.Viol = v
		}
	}
	ob, _ := json.MarshalIndent(out, "", " ")
	if err := os.WriteFile(os.Getenv("VERIF_OUT"), ob, 0o644); err != nil {
		fmt.Fprintln(os.Stderr, err)
		os.Exit(2)
	}
	fmt.Println("MINIMIZE " + string(mustJSON(J{"ok": true, "execs": m.execs, "requests": len(small.Requests), "faults": len(small.Faults), "steps": res.Steps, "orig_steps": f.Steps})))
}
