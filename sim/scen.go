package sim

// Scenario building blocks shared by the per-property generators: a standard
// small federation and constructors for activities of every handled type.

import (
	"fmt"
)

const (
	hostA = "a.example" // simulated server under test
	hostB = "b.example" // second simulated server (peer running the same library)
	hostR = "r.example" // scripted remote host: static documents only
)

type Std struct {
	W                           WorldSpec
	Alice, Carol, Bob, Quinn, Quent *ActorDir // Quent: a second actor whose boxes differ from Quinn's only in the query string
	Dave, Erin                  string // remote actors on r.example
	Note1, Note2                string // notes owned by a.example
	Col1, OCol1                 string // Collection / OrderedCollection owned by a.example
	RNote                       string // remote note
	RLike                       string // remote Like activity by dave of Note1
	Follow1                     string // stored Follow on a.example: alice follows dave
	n                           int
}

type StdOpt struct {
	Scheme             string // serving scheme of server A ("" = https)
	MintScheme         string
	QueryActor         bool // server A also has 'quinn', whose box IRIs carry a query string
	Social, Federating bool
	OnFollow           int
	TwoServers         bool
	Transport          string
	DeliverDepth       int
	ForwardDepth       int
}

func defaultOpt() StdOpt {
	return StdOpt{Social: true, Federating: true, OnFollow: 1, TwoServers: true, DeliverDepth: 3, ForwardDepth: 3}
}

func remoteActor(name string) J {
	base := "https://" + hostR + "/u/" + name
	return J{"@context": asCtx, "type": "Person", "id": base, "inbox": base + "/inbox", "outbox": base + "/outbox", "name": name}
}

func newStd(o StdOpt) *Std {
	s := &Std{}
	s.Alice, s.Carol, s.Bob = actorDirS(o.Scheme, hostA, "alice"), actorDirS(o.Scheme, hostA, "carol"), actorDir(hostB, "bob")
	s.Quinn = actorDirS(o.Scheme, hostA, "quinn")
	s.Quent = actorDirS(o.Scheme, hostA, "quentin")
	scA := "https"
	if o.Scheme != "" {
		scA = o.Scheme
	}
	s.Dave, s.Erin = "https://"+hostR+"/u/dave", "https://"+hostR+"/u/erin"
	s.Note1, s.Note2 = scA+"://"+hostA+"/n/1", scA+"://"+hostA+"/n/2"
	s.Col1, s.OCol1 = scA+"://"+hostA+"/c/1", scA+"://"+hostA+"/oc/1"
	s.RNote = "https://" + hostR + "/n/9"
	s.RLike = "https://" + hostR + "/act/like1"
	s.Follow1 = scA + "://" + hostA + "/f/1"
	actors := []string{"alice", "carol"}
	if o.QueryActor {
		actors = append(actors, "quinn", "qroot", "quentin")
	}
	a := ServerSpec{Host: hostA, Scheme: o.Scheme, MintScheme: o.MintScheme, Social: o.Social, Federating: o.Federating, Actors: actors,
		OnFollow: o.OnFollow, DeliverDepth: o.DeliverDepth, ForwardDepth: o.ForwardDepth, Transport: o.Transport}
	a.Docs = []DocSpec{
		{s.Note1, mustJSON(J{"@context": asCtx, "type": "Note", "id": s.Note1, "attributedTo": s.Alice.ID, "content": "one", "published": "2019-01-01T00:00:00Z"})},
		{s.Note2, mustJSON(J{"@context": asCtx, "type": "Note", "id": s.Note2, "attributedTo": s.Alice.ID, "content": "two",
			"likes": J{"type": "OrderedCollection", "id": s.Note2 + "/likes", "orderedItems": []string{"https://" + hostR + "/act/old"}}})},
		{s.Col1, mustJSON(J{"@context": asCtx, "type": "Collection", "id": s.Col1, "items": []string{s.Dave}})},
		{s.OCol1, mustJSON(J{"@context": asCtx, "type": "OrderedCollection", "id": s.OCol1, "orderedItems": []string{s.Erin}})},
		{s.Follow1, mustJSON(J{"@context": asCtx, "type": "Follow", "id": s.Follow1, "actor": s.Alice.ID, "object": s.Dave})},
	}
	s.W.Servers = append(s.W.Servers, a)
	if o.TwoServers {
		b := ServerSpec{Host: hostB, Social: true, Federating: true, Actors: []string{"bob"}, OnFollow: 1,
			DeliverDepth: 3, ForwardDepth: 3, Transport: o.Transport}
		// bob's own follow request towards alice, so that an auto-Accept from alice verifies on b
		b.Docs = []DocSpec{{"https://" + hostB + "/f/1", mustJSON(J{"@context": asCtx, "type": "Follow", "id": "https://" + hostB + "/f/1", "actor": s.Bob.ID, "object": s.Alice.ID})}}
		s.W.Servers = append(s.W.Servers, b)
	}
	s.W.Remote = []DocSpec{
		{s.Dave, mustJSON(remoteActor("dave"))},
		{s.Erin, mustJSON(remoteActor("erin"))},
		{s.RNote, mustJSON(J{"@context": asCtx, "type": "Note", "id": s.RNote, "attributedTo": s.Dave, "content": "remote"})},
		{s.RLike, mustJSON(J{"@context": asCtx, "type": "Like", "id": s.RLike, "actor": s.Dave, "object": s.Note1})},
	}
	return s
}

func (s *Std) actID(kind string) string {
	s.n++
	return fmt.Sprintf("https://%s/act/%s%d", hostR, kind, s.n)
}

// act builds an activity as a remote peer (dave) would send it.
func (s *Std) act(typ string, fields J) J {
	m := J{"@context": asCtx, "type": typ, "id": s.actID(typ), "actor": s.Dave}
	for k, v := range fields {
		if v == nil {
			delete(m, k)
		} else {
			m[k] = v
		}
	}
	return m
}

func inboxReq(id string, a *ActorDir, host string, body J) ReqSpec {
	return ReqSpec{ID: id, Server: host, Kind: "postInbox", Actor: a.Name, Body: mustJSON(body)}
}

func outboxReq(id string, a *ActorDir, host string, body J) ReqSpec {
	return ReqSpec{ID: id, Server: host, Kind: "postOutbox", Actor: a.Name, Body: mustJSON(body)}
}

func sendReq(id string, a *ActorDir, host string, body J) ReqSpec {
	return ReqSpec{ID: id, Server: host, Kind: "send", Actor: a.Name, Body: mustJSON(body)}
}

func getReq(id, kind string, a *ActorDir, host string) ReqSpec {
	return ReqSpec{ID: id, Server: host, Kind: kind, Actor: a.Name}
}

func handlerReq(id, host, iri string) ReqSpec {
	return ReqSpec{ID: id, Server: host, Kind: "handler", Path: pathOf(iri)}
}

// NamedScenario is one entry of the fixed corpus.
type NamedScenario struct {
	Name string
	Make func() *RunSpec
}

func mk(prop string, st *Std, reqs ...ReqSpec) *RunSpec {
	return &RunSpec{Property: prop, World: st.W, Requests: reqs, Sched: SchedSpec{Strategy: "fifo"}}
}

// corpus covers every default side-effect path of both protocols.
func corpus(prop string) []NamedScenario {
	var out []NamedScenario
	add := func(name string, f func() *RunSpec) {
		out = append(out, NamedScenario{name, func() *RunSpec { sp := f(); sp.Gen = "corpus/" + name; return sp }})
	}
	in := func(name string, o StdOpt, body func(s *Std) J, tweak ...func(s *Std)) {
		add("inbox/"+name, func() *RunSpec {
			st := newStd(o)
			for _, tw := range tweak {
				tw(st)
			}
			return mk(prop, st, inboxReq("r0", st.Alice, hostA, body(st)))
		})
	}
	outb := func(name string, o StdOpt, body func(s *Std) J, tweak ...func(s *Std)) {
		add("outbox/"+name, func() *RunSpec {
			st := newStd(o)
			for _, tw := range tweak {
				tw(st)
			}
			return mk(prop, st, outboxReq("r0", st.Alice, hostA, body(st)))
		})
	}
	d := defaultOpt()
	note := func(s *Std) J {
		return J{"type": "Note", "id": s.RNote, "attributedTo": s.Dave, "content": "remote", "to": s.Alice.ID}
	}
	in("create-embedded", d, func(s *Std) J { return s.act("Create", J{"object": note(s), "to": s.Alice.ID}) })
	in("create-iri", d, func(s *Std) J { return s.act("Create", J{"object": s.RNote, "to": s.Alice.ID}) })
	in("create-iri-alias", d, func(s *Std) J { return s.act("Create", J{"object": "https://" + hostR + "/@dave/9", "to": s.Alice.ID}) }, func(s *Std) {
		// the object is named by an address under which the peer serves the document with its canonical id
		s.W.Remote = append(s.W.Remote, DocSpec{"https://" + hostR + "/@dave/9", mustJSON(J{"@context": asCtx, "type": "Note", "id": s.RNote, "attributedTo": s.Dave, "content": "remote"})})
	})
	in("update", d, func(s *Std) J { return s.act("Update", J{"object": note(s)}) })
	in("delete", d, func(s *Std) J { return s.act("Delete", J{"object": s.RNote}) })
	in("follow-accept", d, func(s *Std) J { return s.act("Follow", J{"object": s.Alice.ID}) })
	in("follow-accept-again", d, func(s *Std) J { return s.act("Follow", J{"object": s.Alice.ID}) }, func(s *Std) {
		// the follower is already in the followers collection
		s.W.Servers[0].Docs = append(s.W.Servers[0].Docs, DocSpec{s.Alice.Followers,
			mustJSON(J{"@context": asCtx, "type": "Collection", "id": s.Alice.Followers, "items": []string{s.Dave}})})
	})
	rej := d
	rej.OnFollow = 2
	in("follow-reject", rej, func(s *Std) J { return s.act("Follow", J{"object": s.Alice.ID}) })
	non := d
	non.OnFollow = 0
	in("follow-nothing", non, func(s *Std) J { return s.act("Follow", J{"object": s.Alice.ID}) })
	in("follow-from-peer", d, func(s *Std) J {
		return J{"@context": asCtx, "type": "Follow", "id": "https://" + hostB + "/f/1", "actor": s.Bob.ID, "object": s.Alice.ID}
	})
	in("accept-follow", d, func(s *Std) J {
		return s.act("Accept", J{"object": J{"type": "Follow", "id": s.Follow1, "actor": s.Alice.ID, "object": s.Dave}})
	})
	in("accept-follow-odd-id", d, func(s *Std) J {
		// a hostile peer labels the Follow it "accepts" with an IRI the request itself works with (the receiving inbox)
		return s.act("Accept", J{"object": J{"type": "Follow", "id": s.Alice.Inbox, "actor": s.Alice.ID, "object": s.Dave}})
	})
	in("reject-follow", d, func(s *Std) J {
		return s.act("Reject", J{"object": J{"type": "Follow", "id": s.Follow1, "actor": s.Alice.ID, "object": s.Dave}})
	})
	in("add", d, func(s *Std) J { return s.act("Add", J{"object": s.RNote, "target": []string{s.Col1, s.OCol1}}) })
	in("remove", d, func(s *Std) J { return s.act("Remove", J{"object": s.Dave, "target": []string{s.Col1, s.OCol1}}) })
	in("like", d, func(s *Std) J { return s.act("Like", J{"object": []string{s.Note1, s.Note2, s.RNote}}) })
	in("announce", d, func(s *Std) J { return s.act("Announce", J{"object": []string{s.Note1, s.RNote}}) })
	byRef := func(s *Std) {
		// likes / shares of the stored object are references to separately stored collections
		a := &s.W.Servers[0]
		for i := range a.Docs {
			if a.Docs[i].ID == s.Note1 {
				a.Docs[i].Doc = mustJSON(J{"@context": asCtx, "type": "Note", "id": s.Note1, "attributedTo": s.Alice.ID, "content": "one",
					"likes": s.Note1 + "/likes", "shares": s.Note1 + "/shares"})
			}
		}
		a.Docs = append(a.Docs,
			DocSpec{s.Note1 + "/likes", mustJSON(J{"@context": asCtx, "type": "OrderedCollection", "id": s.Note1 + "/likes", "orderedItems": []string{}})},
			DocSpec{s.Note1 + "/shares", mustJSON(J{"@context": asCtx, "type": "Collection", "id": s.Note1 + "/shares", "items": []string{}})})
	}
	in("like-by-reference", d, func(s *Std) J { return s.act("Like", J{"object": []string{s.Note1}}) }, byRef)
	in("announce-by-reference", d, func(s *Std) J { return s.act("Announce", J{"object": []string{s.Note1}}) }, byRef)
	in("undo", d, func(s *Std) J { return s.act("Undo", J{"object": s.RLike}) })
	in("block", d, func(s *Std) J { return s.act("Block", J{"object": s.Alice.ID}) })
	in("listen-default", d, func(s *Std) J { return s.act("Listen", J{"object": s.RNote}) })
	in("forwarding", d, func(s *Std) J {
		return s.act("Create", J{"to": []string{s.Alice.Followers, s.Col1}, "cc": s.OCol1,
			"object": J{"type": "Note", "id": s.RNote, "attributedTo": s.Dave, "content": "reply", "inReplyTo": s.Note1}})
	}, func(s *Std) {
		s.W.Servers[0].Docs = append(s.W.Servers[0].Docs, DocSpec{s.Alice.Followers,
			mustJSON(J{"@context": asCtx, "type": "Collection", "id": s.Alice.Followers, "items": []string{s.Bob.ID, s.Dave}})})
	})
	in("forwarding-fragment", d, func(s *Std) J {
		// the reply names a part of an owned document; object and tag carry IRIs with fragment and query
		return s.act("Create", J{"to": []string{s.Alice.Followers}, "object": J{"type": "Note", "id": s.RNote, "attributedTo": s.Dave, "content": "reply",
			"inReplyTo": s.Note1 + "#section-2", "tag": []interface{}{"https://" + hostR + "/t/x?y=1#z", J{"type": "Mention", "href": s.Alice.ID + "#main"}}}})
	}, func(s *Std) {
		s.W.Servers[0].Docs = append(s.W.Servers[0].Docs, DocSpec{s.Alice.Followers,
			mustJSON(J{"@context": asCtx, "type": "Collection", "id": s.Alice.Followers, "items": []string{s.Bob.ID, s.Dave}})})
	})
	in("forwarding-deep", d, func(s *Std) J {
		return s.act("Announce", J{"to": s.Col1, "object": "https://" + hostR + "/n/chain1"})
	}, func(s *Std) {
		s.W.Remote = append(s.W.Remote,
			DocSpec{"https://" + hostR + "/n/chain1", mustJSON(J{"@context": asCtx, "type": "Note", "id": "https://" + hostR + "/n/chain1", "inReplyTo": "https://" + hostR + "/n/chain2"})},
			DocSpec{"https://" + hostR + "/n/chain2", mustJSON(J{"@context": asCtx, "type": "Note", "id": "https://" + hostR + "/n/chain2", "inReplyTo": s.Note1})})
	})
	outb("note", d, func(s *Std) J {
		return J{"@context": asCtx, "type": "Note", "content": "hello", "to": []string{s.Dave, s.Bob.ID}, "bcc": s.Erin, "cc": s.Alice.Followers}
	})
	outb("note-shared-inbox", d, func(s *Std) J {
		return J{"@context": asCtx, "type": "Note", "content": "hello", "to": []string{s.Dave, s.Erin, s.Bob.ID}}
	}, func(s *Std) {
		// the database knows one (shared) inbox for two of the recipients
		shared := "https://" + hostR + "/shared/inbox"
		s.W.Servers[0].StoredInbox = map[string]string{s.Dave: shared, s.Erin: shared}
	})
	outb("create", d, func(s *Std) J {
		return J{"@context": asCtx, "type": "Create", "actor": s.Alice.ID, "to": s.Dave,
			"object": []interface{}{J{"type": "Note", "content": "x", "to": s.Erin}, J{"type": "Note", "content": "y", "bto": s.Bob.ID}}}
	})
	outb("update", d, func(s *Std) J {
		return J{"@context": asCtx, "type": "Update", "actor": s.Alice.ID, "to": s.Dave, "object": J{"type": "Note", "id": s.Note1, "content": "edited"}}
	})
	outb("delete", d, func(s *Std) J {
		return J{"@context": asCtx, "type": "Delete", "actor": s.Alice.ID, "to": s.Dave, "object": []string{s.Note1, s.Note2}}
	})
	missingNil := func(s *Std) { s.W.Servers[0].GetMissing = "nil" } // the database answers (nil, nil) for what it does not have
	outb("delete-one-missing", d, func(s *Std) J {
		return J{"@context": asCtx, "type": "Delete", "actor": s.Alice.ID, "to": s.Dave, "object": []string{s.Note1, "https://" + hostA + "/n/never-had"}}
	}, missingNil)
	outb("update-missing", d, func(s *Std) J {
		return J{"@context": asCtx, "type": "Update", "actor": s.Alice.ID, "to": s.Dave, "object": J{"type": "Note", "id": "https://" + hostA + "/n/never-had", "content": "edited"}}
	}, missingNil)
	outb("note-public-twice", d, func(s *Std) J {
		return J{"@context": asCtx, "type": "Note", "content": "hello all", "to": publicIRI, "cc": []string{s.Dave, publicIRI}, "audience": "as:Public"}
	})
	outb("follow", d, func(s *Std) J {
		return J{"@context": asCtx, "type": "Follow", "actor": s.Alice.ID, "to": s.Bob.ID, "object": s.Bob.ID}
	})
	outb("add", d, func(s *Std) J {
		return J{"@context": asCtx, "type": "Add", "actor": s.Alice.ID, "object": s.Note1, "target": []string{s.Col1, s.OCol1, "https://" + hostR + "/c/x"}}
	})
	outb("remove", d, func(s *Std) J {
		return J{"@context": asCtx, "type": "Remove", "actor": s.Alice.ID, "object": s.Dave, "target": []string{s.Col1}}
	})
	outb("like", d, func(s *Std) J {
		return J{"@context": asCtx, "type": "Like", "actor": s.Alice.ID, "to": s.Dave, "object": []string{s.RNote, s.Note2}}
	})
	outb("undo", d, func(s *Std) J {
		return J{"@context": asCtx, "type": "Undo", "actor": s.Dave, "to": s.Dave, "object": s.RLike}
	})
	outb("block", d, func(s *Std) J {
		return J{"@context": asCtx, "type": "Block", "actor": s.Alice.ID, "object": s.Dave}
	})
	outb("listen-default", d, func(s *Std) J {
		return J{"@context": asCtx, "type": "Listen", "actor": s.Alice.ID, "to": s.Dave, "object": s.RNote}
	})
	add("send/note", func() *RunSpec {
		st := newStd(d)
		return mk(prop, st, sendReq("r0", st.Alice, hostA, J{"@context": asCtx, "type": "Note", "content": "sent", "to": st.Bob.ID, "bto": st.Dave}))
	})
	pageItems := func(st *Std, box string) {
		st.W.Servers[0].Docs = append(st.W.Servers[0].Docs, DocSpec{box, mustJSON(J{"@context": asCtx, "type": "OrderedCollectionPage", "id": box,
			"orderedItems": []interface{}{st.RLike, J{"type": "Create", "id": "https://" + hostR + "/act/c1", "actor": st.Dave}, st.RLike, "https://" + hostR + "/act/c2"}})})
	}
	add("get/inbox", func() *RunSpec {
		st := newStd(d)
		pageItems(st, st.Alice.Inbox)
		return mk(prop, st, getReq("r0", "getInbox", st.Alice, hostA))
	})
	add("get/outbox", func() *RunSpec {
		st := newStd(d)
		pageItems(st, st.Alice.Outbox)
		return mk(prop, st, getReq("r0", "getOutbox", st.Alice, hostA))
	})
	add("get/handler", func() *RunSpec {
		st := newStd(d)
		return mk(prop, st, handlerReq("r0", hostA, st.Note1))
	})
	add("get/handler-missing-query", func() *RunSpec {
		st := newStd(d)
		st.W.Servers[0].GetMissing = "nil"
		rq := handlerReq("r0", hostA, "https://"+hostA+"/n/none")
		rq.Path += "?page=true"
		return mk(prop, st, rq)
	})
	add("get/handler-query", func() *RunSpec {
		st := newStd(d)
		rq := handlerReq("r0", hostA, st.Note1)
		rq.Path += "?view=full"
		return mk(prop, st, rq)
	})
	add("get/handler-missing", func() *RunSpec {
		st := newStd(d)
		return mk(prop, st, handlerReq("r0", hostA, "https://"+hostA+"/n/none"))
	})
	return out
}
