package sim

// An application-written DelegateActor (pub.NewCustomActor): the base actor's own request handling - protocol gate,
// authentication, body decoding, authorization, status reporting - runs as shipped, and every step it delegates is
// answered by a script that follows the documented DelegateActor contract (a refusal is answered by the delegate
// itself and reported as (false, nil); an error is returned with nothing written).

import (
	"context"
	"fmt"
	"net/http"
	"net/url"

	"github.com/go-fed/activity/pub"
	"github.com/go-fed/activity/streams"
	"github.com/go-fed/activity/streams/vocab"
)

type ScriptDelegate struct {
	s   *Sim
	srv *Server
}

var _ pub.DelegateActor = &ScriptDelegate{}

// step is one delegated call: a scheduling point, a fault site and a log entry. The outcome is the scripted one
// unless a fault addresses the call (then it fails).
func (d *ScriptDelegate) step(method string) (string, *Task) {
	if d.s.inAbort() {
		panic(simAbort{})
	}
	msg := d.s.yield(Op{Kind: opCall, Method: "dlg." + method, Srv: d.srv.Spec.Host})
	t := d.s.cur
	out := d.srv.Spec.Custom[method]
	if out == "" {
		out = "ok"
	}
	if msg.fault != nil {
		out = "err"
	}
	d.s.logEv(Event{Srv: d.srv.Spec.Host, Kind: "dlg." + method, Res: out, Fault: msg.fault != nil})
	return out, t
}

func (d *ScriptDelegate) refuse(w http.ResponseWriter, code int) {
	if rec, ok := w.(*Recorder); ok {
		rec.inApp = true
		rec.WriteHeader(code)
		rec.inApp = false
	}
}

func (d *ScriptDelegate) auth(method string, c context.Context, w http.ResponseWriter) (context.Context, bool, error) {
	out, t := d.step(method)
	switch out {
	case "err":
		return c, false, errInjected
	case "errtrue":
		return c, true, errInjected
	case "deny":
		d.refuse(w, http.StatusUnauthorized)
		return c, false, nil
	}
	t.authOK = true
	if t.EntryKind != "postInbox" {
		t.blockOK = true
	}
	return c, true, nil
}

func (d *ScriptDelegate) AuthenticatePostInbox(c context.Context, w http.ResponseWriter, r *http.Request) (context.Context, bool, error) {
	return d.auth("AuthenticatePostInbox", c, w)
}
func (d *ScriptDelegate) AuthenticateGetInbox(c context.Context, w http.ResponseWriter, r *http.Request) (context.Context, bool, error) {
	return d.auth("AuthenticateGetInbox", c, w)
}
func (d *ScriptDelegate) AuthenticatePostOutbox(c context.Context, w http.ResponseWriter, r *http.Request) (context.Context, bool, error) {
	return d.auth("AuthenticatePostOutbox", c, w)
}
func (d *ScriptDelegate) AuthenticateGetOutbox(c context.Context, w http.ResponseWriter, r *http.Request) (context.Context, bool, error) {
	return d.auth("AuthenticateGetOutbox", c, w)
}

func (d *ScriptDelegate) plain(method string) error {
	out, _ := d.step(method)
	switch out {
	case "err":
		return errInjected
	case "objreq":
		return pub.ErrObjectRequired
	case "tgtreq":
		return pub.ErrTargetRequired
	}
	return nil
}

func (d *ScriptDelegate) PostInboxRequestBodyHook(c context.Context, r *http.Request, activity pub.Activity) (context.Context, error) {
	return c, d.plain("PostInboxRequestBodyHook")
}
func (d *ScriptDelegate) PostOutboxRequestBodyHook(c context.Context, r *http.Request, data vocab.Type) (context.Context, error) {
	return c, d.plain("PostOutboxRequestBodyHook")
}

func (d *ScriptDelegate) AuthorizePostInbox(c context.Context, w http.ResponseWriter, activity pub.Activity) (bool, error) {
	out, t := d.step("AuthorizePostInbox")
	switch out {
	case "err":
		return false, errInjected
	case "deny":
		d.refuse(w, http.StatusForbidden)
		return false, nil
	}
	t.blockOK = true
	return true, nil
}

func (d *ScriptDelegate) PostInbox(c context.Context, inboxIRI *url.URL, activity pub.Activity) error {
	return d.plain("PostInbox")
}
func (d *ScriptDelegate) InboxForwarding(c context.Context, inboxIRI *url.URL, activity pub.Activity) error {
	return d.plain("InboxForwarding")
}

func (d *ScriptDelegate) PostOutbox(c context.Context, a pub.Activity, outboxIRI *url.URL, rawJSON map[string]interface{}) (bool, error) {
	out, _ := d.step("PostOutbox")
	switch out {
	case "err":
		return false, errInjected
	case "objreq":
		return false, pub.ErrObjectRequired
	case "tgtreq":
		return false, pub.ErrTargetRequired
	case "nodeliver":
		return false, nil
	}
	return true, nil
}

func (d *ScriptDelegate) AddNewIDs(c context.Context, a pub.Activity) error {
	out, t := d.step("AddNewIDs")
	if out == "err" {
		return errInjected
	}
	u, _ := url.Parse(fmt.Sprintf("https://%s/custom/%s-%d", d.srv.Spec.Host, t.ID, t.calls["dlg.AddNewIDs"]))
	id := streams.NewJSONLDIdProperty()
	id.Set(u)
	a.SetJSONLDId(id)
	t.CustomID = u.String()
	return nil
}

func (d *ScriptDelegate) Deliver(c context.Context, outbox *url.URL, activity pub.Activity) error {
	return d.plain("Deliver")
}

func (d *ScriptDelegate) WrapInCreate(c context.Context, value vocab.Type, outboxIRI *url.URL) (vocab.ActivityStreamsCreate, error) {
	out, _ := d.step("WrapInCreate")
	if out == "err" {
		return nil, errInjected
	}
	cr := streams.NewActivityStreamsCreate()
	op := streams.NewActivityStreamsObjectProperty()
	op.AppendType(value)
	cr.SetActivityStreamsObject(op)
	return cr, nil
}

func (d *ScriptDelegate) page(method string) (vocab.ActivityStreamsOrderedCollectionPage, error) {
	out, _ := d.step(method)
	if out == "err" {
		return nil, errInjected
	}
	p := streams.NewActivityStreamsOrderedCollectionPage()
	oi := streams.NewActivityStreamsOrderedItemsProperty()
	for _, s := range []string{"https://" + hostR + "/act/1", "https://" + hostR + "/act/2", "https://" + hostR + "/act/1"} {
		u, _ := url.Parse(s)
		oi.AppendIRI(u)
	}
	p.SetActivityStreamsOrderedItems(oi)
	return p, nil
}

func (d *ScriptDelegate) GetOutbox(c context.Context, r *http.Request) (vocab.ActivityStreamsOrderedCollectionPage, error) {
	return d.page("GetOutbox")
}
func (d *ScriptDelegate) GetInbox(c context.Context, r *http.Request) (vocab.ActivityStreamsOrderedCollectionPage, error) {
	return d.page("GetInbox")
}

// ---- generator and oracle -------------------------------------------------------------------------

// delegateOrder: the documented order of delegated steps per entry point; a step other than the last may end the
// request (refusal or error), after which no later step may be consulted.
var delegateOrder = map[string][]string{
	"postInbox":  {"AuthenticatePostInbox", "PostInboxRequestBodyHook", "AuthorizePostInbox", "PostInbox", "InboxForwarding"},
	"postOutbox": {"AuthenticatePostOutbox", "PostOutboxRequestBodyHook", "WrapInCreate", "AddNewIDs", "PostOutbox", "Deliver"},
	"getInbox":   {"AuthenticateGetInbox", "GetInbox"},
	"getOutbox":  {"AuthenticateGetOutbox", "GetOutbox"},
}

func genCustom(r *Rng, prop string, k int) *RunSpec {
	o := defaultOpt()
	switch r.Intn(4) {
	case 0:
		o.Social, o.Federating = true, false
	case 1:
		o.Social, o.Federating = false, true
	}
	if r.Intn(3) == 0 {
		o.Scheme, o.MintScheme = "http", "https" // served through the *Scheme entry points
	}
	st := newStd(o)
	a := &st.W.Servers[0]
	a.Custom = map[string]string{"": "custom"}
	kind := Pick(r, []string{"postInbox", "postInbox", "postOutbox", "postOutbox", "getInbox", "getOutbox"})
	steps := delegateOrder[kind]
	// zero, one or two steps do not simply succeed
	for i, n := 0, r.Intn(3); i < n; i++ {
		m := Pick(r, steps)
		var outs []string
		switch {
		case m[:4] == "Auth" && m != "AuthorizePostInbox":
			outs = []string{"deny", "err", "errtrue"}
		case m == "AuthorizePostInbox":
			outs = []string{"deny", "err"}
		case m == "PostInbox":
			outs = []string{"err", "objreq", "tgtreq"}
		case m == "PostOutbox":
			outs = []string{"err", "objreq", "tgtreq", "nodeliver"}
		default:
			outs = []string{"err"}
		}
		a.Custom[m] = Pick(r, outs)
	}
	rq := ReqSpec{ID: "r0", Server: hostA, Kind: kind, Actor: "alice"}
	h := Pick(r, hdrAP)
	if kind[:4] == "post" {
		rq.Method = "POST"
		rq.ContentType = strp(h)
		var body J
		switch r.Intn(5) {
		case 0:
			body = J{"@context": asCtx, "type": "Note", "id": st.RNote, "content": "bare"}
		default:
			body = st.act(Pick(r, []string{"Create", "Like", "Follow", "Listen", "Undo"}), J{"object": st.RNote})
		}
		rq.Body = mustJSON(body)
	} else {
		rq.Method = "GET"
		rq.Accept = strp(h)
	}
	sp := mk(prop, st, rq)
	sp.Sched = SchedSpec{Strategy: "fifo"}
	sp.Gen = fmt.Sprintf("custom/%s/%d/%s", prop, k, kind)
	sp.MapSeed = r.U64() | 1
	return sp
}

// oracleCustom: the steps consulted are a prefix of the documented order, ending at the first step that did not
// simply succeed; the outcome reported is the one that step calls for. (Exactly-one-status is the always-on monitor.)
func oracleCustom(res *Result) {
	s := res.Sim
	for _, t := range res.Tasks {
		if t.Parent != nil || t.Req == nil || !t.done || t.Panic != nil {
			continue
		}
		srv := s.World.Servers[t.Srv]
		if srv.Spec.Custom == nil {
			continue
		}
		order := delegateOrder[t.EntryKind]
		var seen []Event
		for _, e := range s.Log {
			if e.Task == t.ID && len(e.Kind) > 4 && e.Kind[:4] == "dlg." {
				seen = append(seen, e)
			}
		}
		if !protoEnabled(srv, t.EntryKind) {
			if len(seen) > 0 {
				s.violate("C07", "disabled-protocol-consulted-application", t.EntryKind+"@custom", fmt.Sprintf("%s with its protocol disabled consulted the delegate (%s)", t.EntryKind, seen[0].Kind))
			}
			if t.Err != nil || t.Rec.Status != 405 {
				s.violate("C10", "status-405", t.EntryKind+"@custom", fmt.Sprintf("%s with its protocol disabled: status %d err=%v, expected 405", t.EntryKind, t.Rec.Status, t.Err))
			}
			continue
		}
		// expected walk
		body, _ := parseJ(t.Req.Body)
		bare := t.EntryKind == "postOutbox" && !isActivityType(typeOf(body))
		inboxBare := t.EntryKind == "postInbox" && !isActivityType(typeOf(body))
		var want []string
		end, endStep := "ok", ""
		for _, m := range order {
			if m == "WrapInCreate" && !bare {
				continue
			}
			if m == "Deliver" && !srv.Spec.Federating {
				continue
			}
			if inboxBare && m == "PostInboxRequestBodyHook" {
				end, endStep = "notactivity", m
				break
			}
			want = append(want, m)
			out := srv.Spec.Custom[m]
			for _, e := range seen {
				if e.Kind == "dlg."+m && e.Fault {
					out = "err"
				}
			}
			if out == "nodeliver" {
				end, endStep = "ok", m
				break
			}
			if out != "" && out != "ok" {
				end, endStep = out, m
				break
			}
		}
		var got []string
		for _, e := range seen {
			got = append(got, e.Kind[4:])
		}
		if fmt.Sprint(got) != fmt.Sprint(want) {
			cls := "delegate-order"
			if len(got) > len(want) {
				cls = "consulted-after-refusal"
			}
			s.violate("C07", cls, t.EntryKind+"@custom", fmt.Sprintf("%s: delegate steps %v, expected %v (step %s answered %q)", t.EntryKind, got, want, endStep, end))
			continue
		}
		st, rec := t.Rec.Status, t.Rec
		bad := func(exp string) {
			s.violate("C10", "custom-outcome", t.EntryKind+":"+endStep+"="+end, fmt.Sprintf("%s: step %s answered %q; handled=%v err=%v library status %d (%d library writes, %d delegate writes); expected %s", t.EntryKind, endStep, end, t.Handled, t.Err, st, rec.WriteHdrN, rec.AppWrites, exp))
		}
		switch end {
		case "err", "errtrue":
			if !t.Handled || t.Err == nil || rec.Wrote() {
				bad("handled, the error, nothing written")
			}
		case "notactivity":
			if !t.Handled || (t.Err == nil && st != 400) {
				bad("an error or 400")
			}
		case "deny":
			if !t.Handled || t.Err != nil || rec.WriteHdrN != 0 || rec.AppWrites != 1 {
				bad("handled, nil, only the delegate's own answer")
			}
		case "objreq", "tgtreq":
			if !t.Handled || t.Err != nil || st != 400 || rec.WriteHdrN != 1 {
				bad("400")
			}
		default:
			exp := map[string]int{"postInbox": 200, "postOutbox": 201, "getInbox": 200, "getOutbox": 200}[t.EntryKind]
			if !t.Handled || t.Err != nil || st != exp || rec.WriteHdrN != 1 {
				bad(fmt.Sprint(exp))
			} else if exp == 201 {
				if loc := t.CustomID; rec.HdrAtWrite.Get("Location") != loc || loc == "" {
					s.violate("C10", "location", t.EntryKind+"@custom", fmt.Sprintf("201 with Location %q; the id the delegate gave the activity is %q", rec.HdrAtWrite.Get("Location"), loc))
				}
			}
		}
	}
}
