package sim

// C11: hostile input cannot crash or hang the handlers. Structure-aware
// corruption of request bodies, dereferenced documents and stored values.

import (
	"encoding/json"
	"fmt"
	"sort"
	"strings"
)

const (
	iriMissing    = "https://" + hostR + "/hostile/missing"
	iriIllTyped   = "https://" + hostR + "/hostile/illtyped"
	iriIncomplete = "https://" + hostR + "/hostile/incomplete"
	iriArray      = "https://" + hostR + "/hostile/array"
)

// well-formed documents of a kind the place they are named in does not expect (an activity without object, a Tombstone,
// a collection, a Link, an actor): reachable in every C11 world under /hostile/kind/<Type>
var oddKinds = []string{"Travel", "Arrive", "Question", "IntransitiveActivity", "Tombstone", "OrderedCollection", "Link", "Person", "Relationship", "Undo", "Accept", "PathlessInbox", "MailtoInbox", "HugeCollection"}

func iriKind(t string) string { return "https://" + hostR + "/hostile/kind/" + t }

func oddKindDocs() []DocSpec {
	var out []DocSpec
	for _, t := range oddKinds {
		d := J{"@context": asCtx, "type": t, "id": iriKind(t)}
		switch t {
		case "PathlessInbox":
			// an actor whose inbox IRI has no path at all / is not hierarchical: legal IRIs both
			d["type"], d["inbox"] = "Person", "https://inbox-"+hostR
		case "HugeCollection":
			d["type"], d["totalItems"], d["orderedItems"] = "OrderedCollection", 9e15, []string{"https://" + hostR + "/u/dave"}
		case "MailtoInbox":
			d["type"], d["inbox"] = "Service", "mailto:inbox@"+hostR
		case "Travel", "Arrive", "Question", "IntransitiveActivity":
			d["actor"] = "https://" + hostR + "/u/dave"
		case "Link":
			d["href"] = "https://" + hostR + "/elsewhere"
		case "Undo", "Accept":
			d["actor"] = "https://" + hostR + "/u/dave"
			d["object"] = iriKind("Travel")
		case "Relationship":
			d["subject"] = "https://" + hostR + "/u/dave"
		}
		out = append(out, DocSpec{iriKind(t), mustJSON(d)})
	}
	return out
}

type jpath []interface{} // string keys and int indices

func enumPaths(v interface{}, cur jpath, depth int, out *[]jpath) {
	if depth > 4 {
		return
	}
	switch x := v.(type) {
	case map[string]interface{}:
		ks := make([]string, 0, len(x))
		for k := range x {
			ks = append(ks, k)
		}
		sort.Strings(ks)
		for _, k := range ks {
			p := append(append(jpath{}, cur...), k)
			*out = append(*out, p)
			enumPaths(x[k], p, depth+1, out)
		}
	case []interface{}:
		for i := range x {
			p := append(append(jpath{}, cur...), i)
			*out = append(*out, p)
			enumPaths(x[i], p, depth+1, out)
		}
	}
}

var mutOps = []string{"remove", "null", "emptyarray", "emptyobject", "emptystring", "number", "wraparray", "objectnoid", "bool", "iri-missing", "iri-illtyped", "iri-incomplete", "iri-array", "relative", "nested"}

func init() {
	for _, t := range oddKinds {
		mutOps = append(mutOps, "iri-kind-"+t)
	}
	mutOps = append(mutOps, "own-inbox", "own-outbox", "own-actor", "own-followers", "iri-pagedcycle", "iri-public", "iri-selfpage")
}

// a remote collection whose pages point at each other for ever (first -> page 1 -> next page 2 -> next page 1 ...)
const iriPaged = "https://" + hostR + "/hostile/paged"

// a remote page that lists itself among its own items (one recursive member only: with a positive recursion limit d the
// resolution is a chain of d fetches, not a tree)
const iriSelfPage = "https://" + hostR + "/hostile/selfpage"

func pagedCycleDocs() []DocSpec {
	p1, p2 := iriPaged+"?page=1", iriPaged+"?page=2"
	return []DocSpec{
		{iriSelfPage, mustJSON(J{"@context": asCtx, "type": "CollectionPage", "id": iriSelfPage, "partOf": iriPaged, "items": []string{"https://" + hostR + "/u/dave", iriSelfPage}})},
		{iriPaged, mustJSON(J{"@context": asCtx, "type": "OrderedCollection", "id": iriPaged, "totalItems": 2, "first": p1})},
		{p1, mustJSON(J{"@context": asCtx, "type": "OrderedCollectionPage", "id": p1, "partOf": iriPaged, "next": p2, "orderedItems": []string{"https://" + hostR + "/u/dave"}})},
		{p2, mustJSON(J{"@context": asCtx, "type": "OrderedCollectionPage", "id": p2, "partOf": iriPaged, "next": p1, "prev": p1, "orderedItems": []string{"https://" + hostR + "/u/erin"}})},
	}
}

func setPath(root interface{}, p jpath, op string) interface{} {
	if len(p) == 0 {
		return root
	}
	var repl interface{}
	switch op {
	case "null":
		repl = nil
	case "emptyarray":
		repl = []interface{}{}
	case "emptyobject":
		repl = map[string]interface{}{}
	case "emptystring":
		repl = ""
	case "number":
		repl = 7.0
	case "bool":
		repl = true
	case "objectnoid":
		repl = map[string]interface{}{"type": "Note", "content": "no id"}
	case "iri-missing":
		repl = iriMissing
	case "iri-illtyped":
		repl = iriIllTyped
	case "iri-incomplete":
		repl = iriIncomplete
	case "iri-array":
		repl = iriArray
	case "relative":
		repl = "/relative/ref"
	case "own-inbox", "own-outbox", "own-actor", "own-followers":
		// an IRI the request itself works with (the receiving actor of every corpus scenario is alice on a.example)
		me := actorDir(hostA, "alice")
		repl = map[string]string{"own-inbox": me.Inbox, "own-outbox": me.Outbox, "own-actor": me.ID, "own-followers": me.Followers}[op]
	case "iri-pagedcycle":
		repl = iriPaged
	case "iri-public":
		repl = publicIRI
	case "iri-selfpage":
		repl = iriSelfPage
	default:
		if strings.HasPrefix(op, "iri-kind-") {
			repl = iriKind(strings.TrimPrefix(op, "iri-kind-"))
		}
	case "nested":
		repl = []interface{}{[]interface{}{"https://" + hostR + "/x"}, map[string]interface{}{"type": []interface{}{}}}
	}
	var rec func(node interface{}, i int) interface{}
	rec = func(node interface{}, i int) interface{} {
		last := i == len(p)-1
		switch x := node.(type) {
		case map[string]interface{}:
			k, ok := p[i].(string)
			if !ok {
				return node
			}
			if last {
				switch op {
				case "remove":
					delete(x, k)
				case "wraparray":
					x[k] = []interface{}{x[k], x[k]}
				default:
					x[k] = repl
				}
				return x
			}
			x[k] = rec(x[k], i+1)
			return x
		case []interface{}:
			idx, ok := p[i].(int)
			if !ok || idx >= len(x) {
				return node
			}
			if last {
				switch op {
				case "remove":
					return append(x[:idx], x[idx+1:]...)
				case "wraparray":
					x[idx] = []interface{}{x[idx]}
				default:
					x[idx] = repl
				}
				return x
			}
			x[idx] = rec(x[idx], i+1)
			return x
		}
		return node
	}
	return rec(root, 0)
}

// mutateSeeded picks one (path, op) or a raw byte damage from the seed; deterministic in (doc, seed).
func mutateSeeded(b []byte, seed uint64) ([]byte, string) {
	r := NewRng(seed)
	if r.Intn(10) == 0 && len(b) > 2 {
		switch r.Intn(3) {
		case 0:
			n := r.Intn(len(b))
			return b[:n], fmt.Sprintf("truncate@%d", n)
		case 1:
			c := append([]byte(nil), b...)
			i := r.Intn(len(c))
			c[i] ^= byte(1 << uint(r.Intn(8)))
			return c, fmt.Sprintf("flip@%d", i)
		default:
			return []byte(Pick(r, []string{"null", "[]", "[{}]", "\"str\"", "{}", "{\"type\":null}", "{\"@context\":5,\"type\":\"Note\"}"})), "replace-whole"
		}
	}
	var v interface{}
	if err := json.Unmarshal(b, &v); err != nil {
		return b, "unparseable"
	}
	var paths []jpath
	enumPaths(v, nil, 0, &paths)
	if len(paths) == 0 {
		return b, "no-members"
	}
	p := paths[r.Intn(len(paths))]
	// half of the time one of the fifteen structural operations, else one of the special replacement values
	op := Pick(r, mutOps[:15])
	if r.Bool() {
		op = Pick(r, mutOps)
	}
	v = setPath(v, p, op)
	out, err := json.Marshal(v)
	if err != nil {
		return b, "unmarshalable"
	}
	return out, fmt.Sprintf("%v:%s", []interface{}(p), op)
}

func init() {
	applyMutation = func(b []byte, arg string) []byte {
		var seed uint64
		fmt.Sscan(arg, &seed)
		out, _ := mutateSeeded(b, seed)
		return out
	}
}

// richLiterals: one well-formed member per literal kind used by the shipped vocabularies.
func richLiterals() J {
	return J{"duration": "PT5M", "published": "2019-01-01T00:00:00Z", "startTime": "2019-01-01T00:00:00+01:00", "endTime": "2019-01-02T00:00:00Z",
		"updated": "2019-01-03T00:00:00Z", "deleted": "2019-01-04T00:00:00Z", "totalItems": 3, "startIndex": 0, "latitude": 1.5, "longitude": -2.25,
		"altitude": 10.0, "accuracy": 50.0, "radius": 3.0, "units": "km", "mediaType": "text/html", "hreflang": "en", "rel": "canonical",
		"height": 100, "width": 200, "name": "n", "nameMap": J{"en": "n", "fr": "n"}, "summaryMap": J{"en": "s"}, "contentMap": J{"en": "c"},
		"closed": true, "anyOf": []interface{}{}, "formerType": "Note", "url": "https://" + hostR + "/u", "href": "https://" + hostR + "/h"}
}

var hostileLexical = []interface{}{"", "-", "P", "-P", "PT", "P1", "1Y", "-PT-5M", "P99999999999999999999Y", "2019-13-45T99:99:99Z", "T", "0000-00-00T00:00:00Z",
	"not a time", -1, 1e308, 1.5, "1.5", "NaN", true, nil, []interface{}{}, []interface{}{""}, J{}, J{"": ""}, J{"en": 5}, "\u0000", " ", "a/b/c/d", "%zz", ":", "http://[::1", "mailto:"}

func hostileDocs(st *Std) {
	st.W.Remote = append(st.W.Remote,
		DocSpec{iriIllTyped, mustJSON(J{"@context": asCtx, "type": "Note", "id": iriIllTyped, "content": "not what you expected"})},
		DocSpec{iriIncomplete, mustJSON(J{"@context": asCtx, "type": "Person", "id": iriIncomplete})},
		DocSpec{iriArray, json.RawMessage(`[{"type":"Person"}]`)},
	)
}

// addFollowUp appends a clean repetition of the scenario's first request (a fresh activity id), started after every
// other request has returned: whatever the hostile input left behind (a held lock above all) must not keep a later,
// well-formed request from returning.
func addFollowUp(sp *RunSpec, clean ReqSpec) {
	f := clean
	f.ID = clean.ID + "-again"
	f.After = nil
	for _, rq := range sp.Requests {
		f.After = append(f.After, rq.ID)
	}
	if bm, err := parseJ(f.Body); err == nil && f.Body != nil {
		if id, ok := bm["id"].(string); ok {
			bm["id"] = id + "-again"
			f.Body = mustJSON(bm)
		}
	}
	sp.Requests = append(sp.Requests, f)
	sp.Gen += " +followup"
}

// aliasBody rewrites a compact ActivityStreams document into the equally valid spelling with a vocabulary prefix:
// "@context" maps the namespace to an alias and every term (member names, type names) carries it.
func aliasBody(b []byte, alias string) ([]byte, bool) {
	m, err := parseJ(b)
	if err != nil {
		return nil, false
	}
	var walk func(v interface{}, top bool) interface{}
	walk = func(v interface{}, top bool) interface{} {
		switch x := v.(type) {
		case map[string]interface{}:
			out := map[string]interface{}{}
			for k, e := range x {
				switch {
				case k == "@context":
					continue
				case k == "id" || k == "type":
					// JSON-LD keywords keep their name; type VALUES are terms
					if k == "type" {
						switch tv := e.(type) {
						case string:
							e = alias + ":" + tv
						case []interface{}:
							var l []interface{}
							for _, t := range tv {
								if ts, ok := t.(string); ok {
									l = append(l, alias+":"+ts)
								} else {
									l = append(l, t)
								}
							}
							e = l
						}
					}
					out[k] = e
				case strings.Contains(k, ":") || strings.HasPrefix(k, "@"):
					out[k] = walk(e, false)
				default:
					out[alias+":"+k] = walk(e, false)
				}
			}
			if top {
				out["@context"] = map[string]interface{}{asCtx: alias}
			}
			return out
		case []interface{}:
			var l []interface{}
			for _, e := range x {
				l = append(l, walk(e, false))
			}
			if l == nil {
				l = []interface{}{}
			}
			return l
		}
		return v
	}
	if _, ok := m["@context"].(string); !ok {
		return nil, false
	}
	return mustJSON(walk(map[string]interface{}(m), true)), true
}

func driveC11(c *DriveCtx, r *Rng, k int) {
	cp := corpus("C11")
	sc := cp[k%len(cp)]
	mkBase := func() *RunSpec {
		sp := sc.Make()
		sp.Property = "C11"
		// hostile documents are reachable in every world
		sp.World.Remote = append(sp.World.Remote,
			DocSpec{iriIllTyped, mustJSON(J{"@context": asCtx, "type": "Note", "id": iriIllTyped, "content": "not what you expected"})},
			DocSpec{iriIncomplete, mustJSON(J{"@context": asCtx, "type": "Person", "id": iriIncomplete})},
			DocSpec{iriArray, json.RawMessage(`[{"type":"Person"}]`)})
		sp.World.Remote = append(sp.World.Remote, oddKindDocs()...)
		sp.World.Remote = append(sp.World.Remote, pagedCycleDocs()...)
		return sp
	}
	rr := r.Fork("knobs")
	knobs := func(sp *RunSpec) {
		q := NewRng(rr.s)
		a := &sp.World.Servers[0]
		a.GetMissing = Pick(q, []string{"error", "nil"})
		switch q.Intn(6) {
		case 0:
			a.Social, a.Federating = true, false
		case 1:
			a.Social, a.Federating = false, true
		}
		if q.Intn(4) == 0 && len(a.Docs) > 0 {
			i := q.Intn(len(a.Docs))
			a.Docs = append(a.Docs[:i], a.Docs[i+1:]...) // a stored value goes missing
		}
		if q.Intn(5) == 0 {
			a.DeliverDepth, a.ForwardDepth = 1+q.Intn(2), 1+q.Intn(2)
		}
		if q.Intn(4) == 0 && len(a.Docs) > 0 {
			// a stored value is of another kind than the request expects: a bare Tombstone, an empty Collection, a Link, an id-only Object
			i := q.Intn(len(a.Docs))
			id := a.Docs[i].ID
			a.Docs[i].Doc = mustJSON(Pick(q, []J{
				{"@context": asCtx, "type": "Tombstone", "id": id},
				{"@context": asCtx, "type": "Collection", "id": id},
				{"@context": asCtx, "type": "Link", "id": id, "href": id},
				{"@context": asCtx, "type": "Object", "id": id},
				{"@context": asCtx, "type": "Follow", "id": id},
				{"@context": asCtx, "type": "Person", "id": id},
			}))
		}
	}
	if r.Intn(15) == 0 {
		// deep but finite nesting with generous recursion limits: work must stay proportional to the size of the input
		var fw *RunSpec
		for _, sc2 := range cp {
			if sc2.Name == "inbox/forwarding" {
				fw = sc2.Make()
			}
		}
		if fw != nil {
			fw.Property = "C11"
			a := &fw.World.Servers[0]
			a.DeliverDepth, a.ForwardDepth = 50, 50
			depth := 10 + r.Intn(14)
			var inner interface{} = J{"type": "Note", "id": fmt.Sprintf("https://%s/n/deep%d", hostR, depth), "content": "bottom"}
			for i := depth - 1; i >= 0; i-- {
				lvl := J{"type": Pick(r, []string{"Note", "Article"}), "id": fmt.Sprintf("https://%s/n/deep%d", hostR, i)}
				lvl[Pick(r, []string{"inReplyTo", "inReplyTo", "tag"})] = inner
				inner = lvl
			}
			if body, err := parseJ(fw.Requests[0].Body); err == nil {
				if r.Bool() {
					body["object"] = inner
				} else {
					body["object"] = J{"type": "Note", "id": fmt.Sprintf("https://%s/n/deeptop", hostR), "inReplyTo": inner, "tag": inner}
				}
				fw.Requests[0].Body = mustJSON(body)
				fw.Gen += fmt.Sprintf(" deep:%d", depth)
				c.Exec(fw)
			}
		}
		return
	}
	if r.Intn(16) == 0 {
		// every top-level member of the body in turn replaced by an IRI the request itself works with (the receiving actor,
		// its inbox, outbox and followers): identity coincidences between what is named and what is locked
		base := mkBase()
		knobs(base)
		if base.Requests[0].Body != nil && base.Requests[0].Kind != "send" {
			if bm, err := parseJ(base.Requests[0].Body); err == nil {
				for _, key := range sortedKeys(bm) {
					if key == "@context" || key == "type" {
						continue
					}
					for _, op := range []string{"own-inbox", "own-actor", "own-outbox", "own-followers"} {
						if c.Expired() {
							return
						}
						sp := base.Clone()
						var v interface{}
						json.Unmarshal(sp.Requests[0].Body, &v)
						sp.Requests[0].Body = mustJSON(setPath(v, jpath{key}, op))
						sp.Gen += fmt.Sprintf(" own:%s=%s", key, op)
						if r.Intn(3) == 0 {
							addFollowUp(sp, base.Requests[0])
						}
						c.Exec(sp)
					}
				}
			}
		}
		return
	}
	if r.Intn(5) == 0 {
		// a body whose object carries a member of every literal kind of the vocabularies, with one hostile lexical form
		sp := mkBase()
		knobs(sp)
		rq := &sp.Requests[0]
		if rq.Body == nil || rq.Kind == "send" {
			c.Exec(sp)
			return
		}
		body, err := parseJ(rq.Body)
		if err != nil {
			return
		}
		rich := richLiterals()
		keys := sortedKeys(rich)
		for _, k := range keys {
			body[k] = rich[k]
		}
		victim := Pick(r, keys)
		lex := Pick(r, hostileLexical)
		body[victim] = lex
		if om, ok := body["object"].(map[string]interface{}); ok && r.Bool() {
			om[victim] = lex
		}
		rq.Body = mustJSON(body)
		sp.Gen += fmt.Sprintf(" literal:%s=%q", victim, lex)
		c.Exec(sp)
		return
	}
	switch r.Intn(4) {
	case 0, 1: // request body
		sp := mkBase()
		knobs(sp)
		rq := &sp.Requests[0]
		if rq.Body == nil {
			c.Exec(sp)
			return
		}
		cleanRq := *rq
		nb, what := mutateSeeded(rq.Body, r.U64())
		if r.Intn(4) == 0 {
			// the well-formed body in its prefixed spelling, objects doubled now and then (a legal but rarely seen shape)
			if bm, err := parseJ(rq.Body); err == nil {
				if o, ok := bm["object"]; ok && r.Bool() {
					if _, isl := o.([]interface{}); !isl {
						o2 := o
						if om, ok := o.(map[string]interface{}); ok {
							// the second object is another stored value of the same type where there is one
							for _, d := range sp.World.Servers[0].Docs {
								if dm, err := parseJ(d.Doc); err == nil && dm["type"] == om["type"] && d.ID != om["id"] {
									c2 := J{}
									for k, v := range om {
										c2[k] = v
									}
									c2["id"] = d.ID
									o2 = map[string]interface{}(c2)
									break
								}
							}
						}
						bm["object"] = []interface{}{o, o2}
					}
				}
				al := Pick(r, []string{"as", "a", "x"})
				if ab, ok := aliasBody(mustJSON(bm), al); ok {
					nb, what = ab, "aliased"
					if r.Bool() {
						// the stored objects were received in that spelling too
						docs := sp.World.Servers[0].Docs
						for i := range docs {
							if dm, err := parseJ(docs[i].Doc); err == nil {
								switch dm["type"] {
								case "Note", "Article", "Like", "Follow", "Create", "Document", "Image":
									if ad, ok := aliasBody(docs[i].Doc, al); ok {
										docs[i].Doc = ad
									}
								}
							}
						}
						what += "+store"
					}
					if r.Intn(3) == 0 {
						nb, what = mutateSeeded(ab, r.U64())
						what = "aliased+" + what
					}
				}
			}
		} else if r.Intn(6) == 0 {
			if bm, err := parseJ(rq.Body); err == nil {
				bm["id"] = Pick(r, []interface{}{7, "", nil, J{}, []interface{}{}, "/relative", true})
				nb, what = mustJSON(bm), "id:hostile"
			}
		}
		var js interface{}
		if json.Unmarshal(nb, &js) == nil {
			rq.Body = nb
		} else {
			s := string(nb)
			rq.Body, rq.RawBody = nil, &s
		}
		if rq.Kind == "send" {
			// Send takes a decoded value: a body that does not decode is the application's problem, not the library's
			if _, err := decodeType(nb); err != nil {
				return
			}
		}
		sp.Gen += " body:" + what
		if r.Intn(3) == 0 {
			addFollowUp(sp, cleanRq)
		}
		res := c.Exec(sp)
		// the same hostile body while one seam call fails (two things going wrong at once)
		if r.Intn(3) == 0 && len(res.Sim.Sites) > 0 {
			for i := 0; i < 4 && !c.Expired(); i++ {
				site := Pick(r, res.Sim.Sites)
				sp2 := sp.Clone()
				sp2.Faults = append(sp2.Faults, FaultSpec{Site: site, Kind: faultKindFor(site)})
				sp2.Gen += " +fault " + site
				c.Exec(sp2)
			}
		}
	case 2: // a dereferenced document
		clean := mkBase()
		knobs(clean)
		res := c.Exec(clean)
		var sites []string
		for _, s := range res.Sim.Sites {
			if strings.Contains(s, "|tp.Dereference|") {
				sites = append(sites, s)
			}
		}
		for i := 0; i < 6 && len(sites) > 0 && !c.Expired(); i++ {
			sp := mkBase()
			knobs(sp)
			site := Pick(r, sites)
			sp.Faults = []FaultSpec{{Site: site + "|value", Kind: "doc_corrupt", Arg: fmt.Sprint(r.U64())}}
			sp.Gen += " doc@" + site
			if r.Intn(3) == 0 {
				addFollowUp(sp, clean.Requests[0])
			}
			c.Exec(sp)
		}
	default: // a stored value
		clean := mkBase()
		knobs(clean)
		res := c.Exec(clean)
		var sites []string
		for _, s := range res.Sim.Sites {
			for _, m := range []string{"|db.Get|", "|db.Followers|", "|db.Following|", "|db.Liked|", "|db.GetInbox|", "|db.GetOutbox|", "|app.GetInbox|", "|app.GetOutbox|"} {
				if strings.Contains(s, m) {
					sites = append(sites, s)
				}
			}
		}
		for i := 0; i < 6 && len(sites) > 0 && !c.Expired(); i++ {
			sp := mkBase()
			knobs(sp)
			site := Pick(r, sites)
			sp.Faults = []FaultSpec{{Site: site + "|value", Kind: "store_corrupt", Arg: fmt.Sprint(r.U64())}}
			sp.Gen += " store@" + site
			if r.Bool() {
				addFollowUp(sp, clean.Requests[0])
			}
			c.Exec(sp)
		}
	}
}

func init() {
	register(&PropDef{
		ID: "C11", Level: "exploration", Engine: "fedsim",
		Rule: "case = one scenario of the side-effect corpus (every entry point, every handled activity type, delivery, forwarding, GETs) with one hostile input: a structure-aware mutation (each member down to depth 4 removed, nulled, emptied to [] / {} / \"\", replaced by a number, boolean, nested array, array wrap, object without id, relative reference, or the IRI of a missing / ill-typed / incomplete / non-object document, of a paged collection whose pages refer to each other for ever, or of a page that lists itself) or raw byte damage (truncation, bit flip, whole-document replacement) applied to the request body, to a document returned by Transport.Dereference, or to a value returned by Database.Get/Followers/Following/Liked/GetInbox/GetOutbox; the well-formed body in its vocabulary-prefixed spelling (@context maps the namespace to an alias, alias:member, objects doubled), alone or further mutated; a clean follow-up request after the hostile one in a third to a half of the runs (what the hostile input left behind must not keep a later request from returning); plus per-run knobs (missing stored values answered by error or (nil, nil), Social-only / Federating-only actors, small recursion limits). Oracle = recover() around every task (any panic unwinding through the library is a violation), deadlock detection and a 20000-step budget ('fails to return'). distinct = distinct (scenario incl. mutation, event sequence).",
		QuickCases: 12000, QuickBudgetS: 150, ThoroughBudgetS: 600,
		Drive: driveC11,
		Assumptions: []string{"coverage-guided fuzzing of the JSON decoder on arbitrary bytes is another technique and is not part of this check: the decoder is reached only through the three seams (request body, dereferenced document, stored value)",
			"a nil URL handed by the library to an application stub is recorded as a probe, not as a violation",
			"stored-value corruption keeps the Database contract in type (an OrderedCollectionPage where one is promised) but not in content"},
	})
}
