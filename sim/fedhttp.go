package sim

// fedsim with the REAL transport: when a server's Transport knob is "httpsig", NewTransport hands the library a real
// pub.HttpSigTransport (real httpsig RSA signer) over an HTTP client that routes into the simulated federation. A thin
// recording wrapper keeps the seam-level bookkeeping (fault sites, wire log, monitors) identical to SimTransport.

import (
	"bytes"
	"context"
	"errors"
	"fmt"
	"io"
	"net/http"
	"net/url"
	"strings"

	"github.com/go-fed/activity/pub"
	"github.com/go-fed/httpsig"
)

type fedHTTP struct {
	s   *Sim
	srv *Server
}

func (c fedHTTP) Do(req *http.Request) (*http.Response, error) {
	s := c.s
	if s.inAbort() {
		return nil, errInjected
	}
	s.yield(Op{Kind: opPause, Method: "http.Do", ID: req.URL.String()})
	t := s.cur
	w := s.World
	target := req.URL.String()
	resp := func(code int, body []byte) (*http.Response, error) {
		return &http.Response{StatusCode: code, Status: fmt.Sprintf("%d %s", code, http.StatusText(code)), Body: io.NopCloser(bytes.NewReader(body)), Header: http.Header{}, Request: req}, nil
	}
	if v, err := httpsig.NewVerifier(req); err != nil {
		s.violate("C19", "signature-unverifiable", "fedsim:"+req.Method, "a request of the real transport reached the network without a verifiable signature: "+err.Error())
	} else if err := v.Verify(&txKey().PublicKey, httpsig.RSA_SHA256); err != nil {
		s.violate("C19", "signature-invalid", "fedsim:"+req.Method, "signature does not verify: "+err.Error())
	}
	s.probe("real-transport-request")
	if req.Method == "GET" {
		if dst := w.Servers[hostOf(target)]; dst != nil && w.Fate[target] == "" {
			child := s.spawnChild(t, "net", nil)
			rs := &ReqSpec{ID: child.ID, Server: dst.Spec.Host, Kind: "handler", Path: pathOf(target)}
			child.fn = func() { w.runRequest(child, rs) }
			s.yield(Op{Kind: opAwait, Method: "net.await", Wait: []*Task{child}})
			if child.Err == nil && child.Handled && child.Rec.Status == 200 {
				return resp(200, s.corruptDoc(target, child.Rec.Body.Bytes()))
			}
			code := child.Rec.Status
			if code == 0 {
				code = 500
			}
			return resp(code, nil)
		}
		b, out := w.fetch(c.srv, target)
		switch out {
		case "unreachable":
			return nil, &url.Error{Op: "Get", URL: target, Err: errors.New("sim: no route to host")}
		case "absent":
			return resp(404, nil)
		}
		return resp(200, s.corruptDoc(target, b))
	}
	body, _ := io.ReadAll(req.Body)
	// the batch this POST belongs to: the library goroutine's parent task
	batch := t
	if t.Parent != nil && t.Origin == "lib" {
		batch = t.Parent
	}
	batch.netOcc = ensureMap(batch.netOcc)
	batch.netOcc[target]++
	site := fmt.Sprintf("%s|net|%s#%d", batch.ID, target, batch.netOcc[target])
	copies := 1
	if f := s.faultsAt[site]; f != nil {
		s.Fired[f.Kind]++
		switch f.Kind {
		case "net_drop", "http_err":
			return nil, &url.Error{Op: "Post", URL: target, Err: errors.New("sim: connection reset")}
		case "net_dup":
			copies = 2
		}
	}
	dst := w.Servers[hostOf(target)]
	if dst == nil {
		return resp(202, nil)
	}
	a := dst.actorByInbox(target)
	if a == nil {
		return resp(202, nil) // not an inbox: a sink, as with SimTransport
	}
	var children []*Task
	for i := 0; i < copies; i++ {
		child := s.spawnChild(t, "net", nil)
		rs := &ReqSpec{ID: child.ID, Server: dst.Spec.Host, Kind: "postInbox", Actor: a.Name, Body: append([]byte(nil), body...)}
		child.fn = func() { w.runRequest(child, rs) }
		children = append(children, child)
	}
	s.probe("nested-delivery")
	s.yield(Op{Kind: opAwait, Method: "net.await", Wait: children})
	ch := children[0]
	switch {
	case ch.Err != nil || !ch.Handled:
		return resp(500, nil)
	case ch.Rec.Status == 0:
		return resp(401, nil) // the application answered (denied)
	}
	return resp(ch.Rec.Status, nil)
}

func ensureMap(m map[string]int) map[string]int {
	if m == nil {
		return map[string]int{}
	}
	return m
}

// realTransport wraps the real HttpSigTransport with SimTransport's bookkeeping.
type realTransport struct {
	SimTransport
	inner *pub.HttpSigTransport
}

func newRealTransport(s *Sim, srv *Server, box string) *realTransport {
	prefs := []httpsig.Algorithm{httpsig.RSA_SHA256}
	g, _, err := httpsig.NewSigner(prefs, httpsig.DigestSha256, []string{"(request-target)", "host", "date"}, httpsig.Signature)
	if err != nil {
		panic("sim: " + err.Error())
	}
	p, _, err := httpsig.NewSigner(prefs, httpsig.DigestSha256, []string{"(request-target)", "host", "date", "digest"}, httpsig.Signature)
	if err != nil {
		panic("sim: " + err.Error())
	}
	inner := pub.NewHttpSigTransport(fedHTTP{s, srv}, "simapp/1.0", srv.Clock, g, p, box+"#main-key", txKey())
	return &realTransport{SimTransport: SimTransport{s: s, srv: srv, box: box}, inner: inner}
}

func (tp *realTransport) Dereference(c context.Context, iri *url.URL) ([]byte, error) {
	if tp.s.inAbort() {
		return nil, errInjected
	}
	id := ustr(iri)
	msg := tp.s.yield(Op{Kind: opCall, Method: "tp.Dereference", Srv: tp.srv.Spec.Host, ID: id})
	t := tp.s.cur
	tp.s.monSeam(t, "tp", "Dereference", tp.srv.Spec.Host)
	rec := DerefRec{Seq: len(tp.s.Log), Task: t.ID, Srv: tp.srv.Spec.Host, IRI: id}
	if msg.fault != nil {
		rec.Res = "fault"
		tp.s.World.Derefs = append(tp.s.World.Derefs, rec)
		tp.s.logEv(Event{Srv: tp.srv.Spec.Host, Kind: "tp.Dereference", ID: id, Fault: true, Res: "err"})
		return nil, injectedErr(tp.s, msg.fault, "")
	}
	if isPublic(id) {
		tp.s.violate("C02", "public-dereferenced", "tp.Dereference", "the Public collection was dereferenced by "+t.ID)
		return nil, fmt.Errorf("sim: Public is not a document")
	}
	b, err := tp.inner.Dereference(c, iri)
	rec.Res = "ok"
	if err != nil {
		rec.Res = "fail"
	}
	tp.s.World.Derefs = append(tp.s.World.Derefs, rec)
	tp.s.logEv(Event{Task: t.ID, Srv: tp.srv.Spec.Host, Kind: "tp.Dereference", ID: id, Res: rec.Res})
	return b, err
}

func (tp *realTransport) Deliver(c context.Context, b []byte, to *url.URL) error {
	return tp.deliverReal(c, b, []*url.URL{to}, false)
}

func (tp *realTransport) BatchDeliver(c context.Context, b []byte, recipients []*url.URL) error {
	return tp.deliverReal(c, b, recipients, true)
}

func (tp *realTransport) deliverReal(c context.Context, b []byte, recipients []*url.URL, batch bool) error {
	if tp.s.inAbort() {
		return errInjected
	}
	method := "tp.Deliver"
	if batch {
		method = "tp.BatchDeliver"
	}
	msg := tp.s.yield(Op{Kind: opCall, Method: method, Srv: tp.srv.Spec.Host})
	t := tp.s.cur
	tp.s.monSeam(t, "tp", method[3:], tp.srv.Spec.Host)
	var rcpts []string
	for _, r := range recipients {
		rcpts = append(rcpts, ustr(r))
	}
	wm := WireMsg{Seq: len(tp.s.Log), Task: t.ID, Srv: tp.srv.Spec.Host, Box: tp.box, Payload: string(b), Recipients: rcpts, Batch: batch}
	if msg.fault != nil {
		wm.Err = true
		tp.s.World.Wire = append(tp.s.World.Wire, wm)
		tp.s.logEv(Event{Srv: tp.srv.Spec.Host, Kind: method, Arg: J{"to": rcpts}, Fault: true, Res: "err"})
		return errInjected
	}
	tp.s.World.Wire = append(tp.s.World.Wire, wm)
	tp.s.monWire(t, &tp.SimTransport, &wm)
	tp.s.logEv(Event{Srv: tp.srv.Spec.Host, Kind: method, Arg: J{"payload": string(b), "to": rcpts}})
	for _, r := range recipients {
		if r == nil || !strings.HasPrefix(r.Scheme, "http") {
			return fmt.Errorf("sim: cannot deliver to %s", ustr(r))
		}
	}
	if batch {
		return tp.inner.BatchDeliver(c, b, recipients)
	}
	return tp.inner.Deliver(c, b, recipients[0])
}
