package sim

import (
	"encoding/json"
	"fmt"
)

func init() {
	cp := corpus("C09")
	register(&PropDef{
		ID: "C09", Level: "fault_enumeration", Engine: "fedsim",
		Rule: "case = one scenario of the side-effect corpus (every wrapped activity type at inbox and outbox, delivery, forwarding, GET) or a generated addressing variant; " +
			"per case: the fault-free run plus one run per fallible seam call (Database, Transport, NewTransport, callbacks) with that call failing; the generated part (400 cases in quick, time-boxed in thorough) adds random addressing (same collection twice, collection also as object/target), structure-aware mutations of corpus bodies (id-less objects, emptied members), fault pairs and two concurrent requests. The single-fault space of the corpus is swept completely. " +
			"A run is non-trivial if it made more than 3 seam calls; distinct = distinct hash of the (task, seam kind, fault, result class) event sequence.",
		QuickCases: len(cp) + 1000,
		Exhaustive: false,
		Drive: func(c *DriveCtx, r *Rng, k int) {
			if k < len(cp) {
				c.singleFaultSweep(cp[k].Make, faultKindFor)
				return
			}
			driveC09Generated(c, r, k)
		},
		Assumptions: []string{
			"SimDB.Lock is a non-reentrant per-id mutex arbitrated by the scheduler; an injected Lock error takes no lock, an injected Unlock error still frees it (as pub.Database documents)",
			"'holds a lock' is read as: the request holds at least one lock (not necessarily of the id accessed)",
		},
	})
}

// driveC09Generated: random addressing (same collection named twice, a
// collection also used as object/target), fault pairs, two concurrent requests.
func driveC09Generated(c *DriveCtx, r *Rng, k int) {
	cp := corpus("C09")
	switch r.Intn(4) {
	case 3: // unusual-but-decodable inputs: a structure-aware mutation of a corpus request body (members removed, emptied, id-less objects, ...)
		sc := cp[r.Intn(len(cp))]
		seed := r.U64()
		mkSpec := func() *RunSpec {
			sp := sc.Make()
			rq := &sp.Requests[0]
			if rq.Body != nil && rq.Kind != "send" { // Send takes a decoded value
				if nb, what := mutateSeeded(rq.Body, seed); json.Valid(nb) && nb[0] == '{' {
					rq.Body = nb
					sp.Gen += " body:" + what
				}
			}
			return sp
		}
		if k%3 == 0 {
			c.singleFaultSweep(mkSpec, faultKindFor)
		} else {
			c.Exec(mkSpec())
		}
	case 0: // addressing variants of a forwarding-eligible activity
		mkSpec := func() *RunSpec {
			rr := NewRng(r.s)
			st := newStd(defaultOpt())
			st.W.Servers[0].Docs = append(st.W.Servers[0].Docs, DocSpec{st.Alice.Followers,
				mustJSON(J{"@context": asCtx, "type": "Collection", "id": st.Alice.Followers, "items": []string{st.Bob.ID, st.Dave}})})
			pool := []string{st.Alice.Followers, st.Col1, st.OCol1, st.Dave, st.Note1, st.Alice.ID}
			pickN := func() []string {
				var out []string
				for i, n := 0, 1+rr.Intn(3); i < n; i++ {
					out = append(out, Pick(rr, pool))
				}
				return out
			}
			typ := Pick(rr, []string{"Create", "Announce", "Add", "Like"})
			f := J{"to": pickN(), "cc": pickN()}
			switch typ {
			case "Create":
				f["object"] = J{"type": "Note", "id": st.RNote, "attributedTo": st.Dave, "inReplyTo": Pick(rr, pool)}
			case "Add":
				f["object"] = Pick(rr, pool)
				f["target"] = pickN()
			default:
				f["object"] = pickN()
			}
			sp := mk("C09", st, inboxReq("r0", st.Alice, hostA, st.act(typ, f)))
			sp.Gen = fmt.Sprintf("gen/addressing/%d", k)
			return sp
		}
		c.singleFaultSweep(mkSpec, faultKindFor)
	case 1: // pairs of faults on a corpus scenario
		sc := cp[r.Intn(len(cp))]
		clean := c.Exec(sc.Make())
		sites := clean.Sim.Sites
		if len(sites) < 2 {
			return
		}
		for i := 0; i < 12 && !c.Expired(); i++ {
			a, b := Pick(r, sites), Pick(r, sites)
			if a == b {
				continue
			}
			sp := sc.Make()
			sp.Faults = []FaultSpec{{Site: a, Kind: faultKindFor(a)}, {Site: b, Kind: faultKindFor(b)}}
			sp.Gen += fmt.Sprintf(" +pair %s,%s", a, b)
			c.Exec(sp)
		}
	case 2: // two corpus requests concurrently, one fault
		a, b := cp[r.Intn(len(cp))].Make(), cp[r.Intn(len(cp))].Make()
		mkSpec := func() *RunSpec {
			sp := a.Clone()
			rq := b.Clone().Requests[0]
			rq.ID = "r1"
			sp.Requests = append(sp.Requests, rq)
			// union of the worlds: a's world plus b's extra docs
			seen := map[string]bool{}
			for _, d := range sp.World.Servers[0].Docs {
				seen[d.ID] = true
			}
			for _, d := range b.World.Servers[0].Docs {
				if !seen[d.ID] {
					sp.World.Servers[0].Docs = append(sp.World.Servers[0].Docs, d)
				}
			}
			rs := map[string]bool{}
			for _, d := range sp.World.Remote {
				rs[d.ID] = true
			}
			for _, d := range b.World.Remote {
				if !rs[d.ID] {
					sp.World.Remote = append(sp.World.Remote, d)
				}
			}
			sp.Sched = SchedSpec{Strategy: "random", Seed: r.s}
			sp.Gen = fmt.Sprintf("gen/concurrent(%s | %s)", a.Gen, b.Gen)
			return sp
		}
		clean := c.Exec(mkSpec())
		sites := clean.Sim.Sites
		for i := 0; i < 10 && len(sites) > 0 && !c.Expired(); i++ {
			s := Pick(r, sites)
			sp := mkSpec()
			sp.Faults = []FaultSpec{{Site: s, Kind: faultKindFor(s)}}
			sp.Gen += " +fault " + s
			c.Exec(sp)
		}
	}
}
