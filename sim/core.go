package sim

// Deterministic scheduler: every task is a goroutine running real library code;
// it parks at every simulator-owned seam call; the root goroutine of a
// testing/synctest bubble decides who runs next. Exactly one task runs
// between two synctest.Wait calls, so simulator state needs no locking.

import (
	"errors"
	"crypto/sha256"
	"encoding/hex"
	"fmt"
	"runtime"
	"sort"
	"strconv"
	"strings"
	"sync"
	"sync/atomic"
	"testing"
	"testing/synctest"
)

// ---- PRNG ---------------------------------------------------------------

type Rng struct{ s uint64 }

func NewRng(seed uint64) *Rng { return &Rng{s: seed ^ 0x9E3779B97F4A7C15} }

func (r *Rng) U64() uint64 {
	r.s += 0x9E3779B97F4A7C15
	z := r.s
	z = (z ^ (z >> 30)) * 0xBF58476D1CE4E5B9
	z = (z ^ (z >> 27)) * 0x94D049BB133111EB
	return z ^ (z >> 31)
}
func (r *Rng) Intn(n int) int {
	if n <= 0 {
		return 0
	}
	return int(r.U64() % uint64(n))
}
func (r *Rng) Bool() bool          { return r.U64()&1 == 1 }
func (r *Rng) Chance(p float64) bool { return float64(r.U64()>>11)/float64(1<<53) < p }
func (r *Rng) Fork(label string) *Rng {
	h := sha256.Sum256([]byte(fmt.Sprintf("%d/%s", r.s, label)))
	var s uint64
	for i := 0; i < 8; i++ {
		s = s<<8 | uint64(h[i])
	}
	return NewRng(s)
}
func (r *Rng) Perm(n int) []int {
	p := make([]int, n)
	for i := range p {
		p[i] = i
	}
	for i := n - 1; i > 0; i-- {
		j := r.Intn(i + 1)
		p[i], p[j] = p[j], p[i]
	}
	return p
}
func Pick[T any](r *Rng, xs []T) T { return xs[r.Intn(len(xs))] }

// ---- tasks --------------------------------------------------------------

type opKind int

const (
	opStart opKind = iota
	opCall         // ordinary seam call, always enabled
	opLock         // database lock on (server,id): enabled iff free
	opMutex        // sync.Mutex of the library (T2): enabled iff free
	opAwait        // wait for child tasks to finish
	opPause        // a pure scheduling point (clock read, response write): cannot fail, always enabled
)

type Op struct {
	Kind   opKind
	Method string // e.g. "db.Get", "app.Blocked", "tp.BatchDeliver"
	Srv    string
	ID     string // lock id / argument id
	Mu     *sync.Mutex
	Wait   []*Task
	Site   string // fault site key, filled by yield
	contended bool
	Fn     string // library function making the call (lock ops)
}

type wakeMsg struct {
	poison bool
	fault  *FaultSpec
}

type simAbort struct{}

var errCrashed = errors.New("sim: the server crashed while this request was in progress")

type Task struct {
	ID      string
	Idx     int
	Srv     string // server the request is addressed to ("" for pure client tasks)
	Req     *ReqSpec
	Parent  *Task
	wake    chan wakeMsg
	pending *Op
	running bool
	done    bool
	dead    bool // killed by a simulated crash of its server
	started bool
	spawned int
	calls   map[string]int // per-method call counter (fault site addressing)
	ord     int            // total fallible seam calls so far
	held    []string       // database locks held, "srv|id", in acquisition order
	heldBy  map[string]string // held key -> library function that took it
	netOcc  map[string]int    // real transport: deliveries per recipient URL of this batch
	cancel  func()            // cancels the request's context (fault ctx_cancel)
	Snap    map[string]string // database of the request's server when the request started (top-level requests)
	fn      func()
	// outcome of an entry call
	Handled  bool
	Err      error
	Rec      *Recorder
	Result   interface{}
	CustomID string // id a scripted delegate gave the activity (custom actors)
	Held     []byte // txsim: the very slice Dereference returned, kept by the caller
	Panic    interface{}
	PanicStk string
	StartSeq int
	EndSeq   int
	After    []string
	Origin   string // "client", "peer", "net", "lib"
	// per-task monitor state
	authOK    bool
	blockOK   bool
	EntryKind string
	sideEff   int
}

func (t *Task) String() string { return t.ID }

type Event struct {
	Seq    int         `json:"seq"`
	Task   string      `json:"task"`
	Srv    string      `json:"srv,omitempty"`
	Kind   string      `json:"kind"`
	ID     string      `json:"id,omitempty"`
	Arg    interface{} `json:"arg,omitempty"`
	Res    string      `json:"res,omitempty"`
	Fault  bool        `json:"fault,omitempty"`
	Nested string      `json:"nested,omitempty"`
}

type Violation struct {
	Property string `json:"property"`
	Inv      string `json:"inv"`  // invariant name
	Site     string `json:"site"` // normalised site (part of the signature)
	Detail   string `json:"detail"`
	Seq      int    `json:"seq"`
}

func (v Violation) Sig() string { return v.Property + "/" + v.Inv + "@" + v.Site }

type Sim struct {
	T        *testing.T
	Spec     *RunSpec
	tasks    []*Task
	byID     map[string]*Task
	gidMu    sync.Mutex
	byGID    map[int64]*Task
	cur      *Task
	last     *Task
	aborting atomic.Bool
	Steps    int
	Log      []Event
	Viol     []Violation
	locks    map[string]*Task // "srv|id" -> holder
	mutexes  map[*sync.Mutex]*Task
	muNames  map[*sync.Mutex]string
	chooser  *chooser
	faultsAt map[string]*FaultSpec
	Fired    map[string]int // fault kind -> count fired
	Probes   map[string]int
	Sched    []string // schedule actually taken (task id per step)
	Preempt  int
	Verdict  string // "", "deadlock", "budget"
	World    *World
	mapRng   uint64
	Sites    []string // every fallible call site seen, in order (for sweeps)
	Uncontrolled map[string]int
	now      int64 // simulated clock, nanoseconds since base
	maxSteps int
	stuck    bool
	crashed  bool
	crashAt  *FaultSpec
	crashStep int
	deadlockAt string
}

func gid() int64 {
	var buf [64]byte
	n := runtime.Stack(buf[:], false)
	// "goroutine 123 ["
	s := string(buf[:n])
	s = strings.TrimPrefix(s, "goroutine ")
	i := strings.IndexByte(s, ' ')
	id, _ := strconv.ParseInt(s[:i], 10, 64)
	return id
}

func (s *Sim) curTask() *Task {
	g := gid()
	s.gidMu.Lock()
	t := s.byGID[g]
	s.gidMu.Unlock()
	return t
}

func (s *Sim) probe(name string) { s.Probes[name]++ }

func (s *Sim) violate(prop, inv, site, detail string) {
	for _, v := range s.Viol {
		if v.Property == prop && v.Inv == inv && v.Site == site {
			return
		}
	}
	s.Viol = append(s.Viol, Violation{Property: prop, Inv: inv, Site: site, Detail: detail, Seq: len(s.Log)})
}

func (s *Sim) logEv(e Event) {
	e.Seq = len(s.Log)
	if e.Task == "" && s.cur != nil {
		e.Task = s.cur.ID
	}
	s.Log = append(s.Log, e)
}

// newTask registers a task; the goroutine is created lazily by start().
func (s *Sim) newTask(id string, parent *Task, fn func()) *Task {
	if s.byID[id] != nil {
		panic("sim: duplicate task id " + id)
	}
	t := &Task{ID: id, Idx: len(s.tasks), Parent: parent, wake: make(chan wakeMsg), calls: map[string]int{}, fn: fn}
	s.tasks = append(s.tasks, t)
	s.byID[id] = t
	return t
}

// launch creates the goroutine of t; it parks at once with opStart. Called
// from the scheduler goroutine or from the parent task's goroutine; the
// caller blocks until the child has registered its goroutine id.
func (s *Sim) launch(t *Task) {
	ready := make(chan struct{})
	t.pending = &Op{Kind: opStart, Method: "start"}
	t.started = true
	go func() {
		g := gid()
		s.gidMu.Lock()
		s.byGID[g] = t
		s.gidMu.Unlock()
		close(ready)
		defer func() {
			if r := recover(); r != nil {
				if _, ok := r.(simAbort); !ok {
					t.Panic = r
					buf := make([]byte, 16384)
					t.PanicStk = string(buf[:runtime.Stack(buf, false)])
				}
			}
			t.done = true
			t.running = false
			t.EndSeq = len(s.Log)
		}()
		msg := <-t.wake
		if msg.poison {
			return
		}
		t.running = true
		t.StartSeq = len(s.Log)
		t.fn()
	}()
	<-ready
}

// spawnChild is called from a running task: creates a child that the
// scheduler will run; deterministic id parent.N.
func (s *Sim) spawnChild(parent *Task, origin string, fn func()) *Task {
	parent.spawned++
	t := s.newTask(fmt.Sprintf("%s.%d", parent.ID, parent.spawned), parent, fn)
	t.Origin = origin
	s.launch(t)
	return t
}

// yield parks the calling task until the scheduler wakes it.
func (s *Sim) yield(op Op) wakeMsg {
	if s.aborting.Load() {
		panic(simAbort{})
	}
	t := s.curTask()
	if t == nil {
		panic("sim: seam call from a goroutine that is not a task (" + op.Method + ")")
	}
	if t.dead {
		panic(simAbort{}) // a task of a crashed server that was blocked inside the library when the crash came
	}
	if op.Kind == opCall || op.Kind == opLock {
		t.calls[op.Method]++
		t.ord++
		op.Site = fmt.Sprintf("%s|%s|%d", t.ID, op.Method, t.calls[op.Method])
	}
	t.pending = &op
	t.running = false
	msg := <-t.wake
	if msg.poison {
		panic(simAbort{})
	}
	t.running = true
	return msg
}

// inAbort lets deferred seam calls (Unlock in a deferred function while a
// poisoned task unwinds) become no-ops.
func (s *Sim) inAbort() bool {
	if s.aborting.Load() {
		return true
	}
	if s.crashed {
		if t := s.curTask(); t != nil && t.dead {
			return true
		}
	}
	return false
}

// crash kills every task addressed to host at its current seam: the sentinel panic unwinds through the
// library (deferred seam calls are no-ops for a dead task), locks vanish, the database contents survive.
func (s *Sim) crash(host string) {
	s.crashed = true
	s.Fired["crash"]++
	s.logEv(Event{Task: "-", Srv: host, Kind: "CRASH"})
	for _, t := range s.tasks {
		if t.started && !t.done && t.Srv == host && t.Req != nil && !t.Req.AfterCrash {
			t.dead = true
			t.Err = errCrashed
		}
	}
	// children spawned by the library (go statements) die with their parent
	for changed := true; changed; {
		changed = false
		for _, t := range s.tasks {
			if !t.dead && t.started && !t.done && t.Parent != nil && t.Parent.dead && t.Origin == "lib" {
				t.dead = true
				changed = true
			}
		}
	}
	for _, t := range s.tasks {
		if t.dead && !t.done && !t.running && t.pending != nil {
			// a goroutine of the library that has not run yet is started and dies at its first seam call, so that
			// its deferred functions (wg.Done) run; everything else unwinds from where it is parked
			atStart := t.pending.Kind == opStart && t.Origin == "lib"
			t.pending = nil
			t.wake <- wakeMsg{poison: !atStart}
			synctest.Wait()
		}
	}
	synctest.Wait()
	for k, h := range s.locks {
		if h.dead {
			delete(s.locks, k)
		}
	}
	for m, h := range s.mutexes {
		if h.dead {
			delete(s.mutexes, m)
		}
	}
}

func (s *Sim) enabled(t *Task) bool {
	if t.done || t.pending == nil || t.running {
		return false
	}
	op := t.pending
	switch op.Kind {
	case opStart:
		if t.Req != nil && t.Req.AfterCrash && s.crashAt != nil && !s.crashed {
			return false
		}
		for _, dep := range t.After {
			for _, d := range s.tasks {
				if (d.ID == dep || strings.HasPrefix(d.ID, dep+".")) && !d.done {
					return false
				}
			}
		}
		return true
	case opLock:
		if f := s.faultsAt[op.Site]; f != nil && f.Kind != "ctx_cancel" {
			return true
		}
		h := s.locks[op.Srv+"|"+op.ID]
		if h != nil && h != t && !op.contended {
			op.contended = true
			s.probe("lock-contention")
		}
		return h == nil
	case opMutex:
		h := s.mutexes[op.Mu]
		if h != nil && !op.contended {
			op.contended = true
			s.probe("lock-contention-mutex")
		}
		return h == nil
	case opAwait:
		for _, w := range op.Wait {
			if !w.done {
				return false
			}
		}
		return true
	}
	return true
}

// Run executes the spec inside a synctest bubble and fills the Sim.
func (s *Sim) Run(body func()) (bubblePanic interface{}) {
	defer func() {
		if r := recover(); r != nil {
			bubblePanic = r
		}
	}()
	synctest.Test(s.T, func(t *testing.T) {
		body()
		s.loop()
	})
	return nil
}

// heartbeat is bumped at every scheduling step; a wall-clock watchdog outside the bubble
// (see startWatchdog) turns "no step for many seconds" into a 'fails to return' verdict.
var heartbeat atomic.Int64

func (s *Sim) loop() {
	for {
		heartbeat.Add(1)
		synctest.Wait()
		// a task that is neither parked nor done after Wait is blocked
		// outside any seam (e.g. on a channel of the library).
		var enabled []*Task
		unfinished := 0
		stuck := false
		for _, t := range s.tasks {
			if !t.started {
				continue
			}
			if !t.done && !t.dead {
				unfinished++
			}
			if t.running && !t.done {
				stuck = true
			}
			if s.enabled(t) {
				enabled = append(enabled, t)
			}
		}
		if s.crashAt != nil && !s.crashed && (len(enabled) == 0 || s.Steps >= s.crashStep) {
			// the crash: at its step, or at quiescence if the run got there first (a restart with nothing in flight)
			s.crash(s.crashAt.Arg)
			continue
		}
		if len(enabled) == 0 {
			if unfinished > 0 {
				s.Verdict = "deadlock"
				s.stuck = stuck
				s.describeDeadlock()
			}
			break
		}
		if s.Steps >= s.maxSteps {
			s.Verdict = "budget"
			break
		}
		t := s.chooser.choose(s, enabled)
		s.Steps++
		if s.last != nil && s.last != t && !s.last.done && s.enabled(s.last) {
			s.Preempt++
		}
		s.Sched = append(s.Sched, t.ID)
		s.last = t
		s.cur = t
		op := t.pending
		msg := wakeMsg{}
		if op.Site != "" {
			s.Sites = append(s.Sites, op.Site)
			if f := s.faultsAt[op.Site]; f != nil {
				s.Fired[f.Kind]++
				if f.Kind == "ctx_cancel" {
					// the peer hangs up / the deadline passes: the request's context is cancelled, the call itself succeeds
					if root := rootOf(t); root.cancel != nil {
						root.cancel()
					}
				} else {
					msg.fault = f
				}
			}
		}
		switch op.Kind {
		case opLock:
			if msg.fault == nil {
				key := op.Srv + "|" + op.ID
				s.locks[key] = t
				t.held = append(t.held, key)
			}
		case opMutex:
			s.mutexes[op.Mu] = t
		}
		t.pending = nil
		s.now += 1_000_000 * int64(1+len(t.ID)%7) // deterministic drift per step
		t.wake <- msg
	}
	// drain: poison everything still parked so goroutines exit.
	s.aborting.Store(true)
	for _, t := range s.tasks {
		if t.started && !t.done && !t.running {
			select {
			case t.wake <- wakeMsg{poison: true}:
			default:
			}
		}
	}
	synctest.Wait()
}

func (s *Sim) describeDeadlock() {
	var parts []string
	for _, t := range s.tasks {
		if !t.started || t.done {
			continue
		}
		switch {
		case t.running:
			parts = append(parts, fmt.Sprintf("%s blocked outside any seam", t.ID))
		case t.pending != nil && t.pending.Kind == opLock:
			h := s.locks[t.pending.Srv+"|"+t.pending.ID]
			hn := "?"
			if h != nil {
				hn = h.ID
			}
			parts = append(parts, fmt.Sprintf("%s waits for db lock %s held by %s", t.ID, t.pending.ID, hn))
		case t.pending != nil && t.pending.Kind == opMutex:
			parts = append(parts, fmt.Sprintf("%s waits for mutex %s", t.ID, s.muNames[t.pending.Mu]))
		case t.pending != nil && t.pending.Kind == opAwait:
			var w []string
			for _, x := range t.pending.Wait {
				if !x.done {
					w = append(w, x.ID)
				}
			}
			parts = append(parts, fmt.Sprintf("%s awaits %s", t.ID, strings.Join(w, ",")))
		case t.pending != nil && t.pending.Kind == opStart:
			parts = append(parts, fmt.Sprintf("%s not started (after %v)", t.ID, t.After))
		}
	}
	// wait-for graph; the site names only the tasks on a cycle, not bystanders queued behind it
	next := map[*Task][]*Task{}
	for _, t := range s.tasks {
		if !t.started || t.done || t.running || t.pending == nil {
			continue
		}
		switch t.pending.Kind {
		case opLock:
			if h := s.locks[t.pending.Srv+"|"+t.pending.ID]; h != nil {
				next[t] = append(next[t], h)
			}
		case opMutex:
			if h := s.mutexes[t.pending.Mu]; h != nil {
				next[t] = append(next[t], h)
			}
		case opAwait:
			for _, w := range t.pending.Wait {
				if !w.done {
					next[t] = append(next[t], w)
				}
			}
		}
	}
	onCycle := func(t *Task) bool {
		seen := map[*Task]bool{}
		stack := append([]*Task(nil), next[t]...)
		for len(stack) > 0 {
			x := stack[len(stack)-1]
			stack = stack[:len(stack)-1]
			if x == t {
				return true
			}
			if seen[x] {
				continue
			}
			seen[x] = true
			stack = append(stack, next[x]...)
		}
		return false
	}
	fns := map[string]bool{}
	for _, t := range s.tasks {
		if t.pending != nil && !t.done && onCycle(t) {
			switch t.pending.Kind {
			case opLock:
				fns[t.pending.Fn] = true
			case opMutex:
				fns["mutex"] = true
			}
		}
	}
	if len(fns) == 0 {
		s.deadlockAt = "blocked-outside-seam"
	} else {
		s.deadlockAt = "lock:" + strings.Join(sortedKeys(fns), "+")
	}
	s.logEv(Event{Task: "-", Kind: "DEADLOCK", Res: strings.Join(parts, "; ")})
}

// LogHash is the SHA-256 of the canonical event log.
func (s *Sim) LogHash() string {
	h := sha256.New()
	for _, e := range s.Log {
		fmt.Fprintf(h, "%d|%s|%s|%s|%s|%s|%v|%s\n", e.Seq, e.Task, e.Srv, e.Kind, e.ID, canonJSON(e.Arg), e.Fault, e.Res)
	}
	return hex.EncodeToString(h.Sum(nil))
}

// ---- choosers -----------------------------------------------------------

type chooser struct {
	strategy string // explicit | random | pct | sticky | fifo
	rng      *Rng
	explicit []string
	pos      int
	prio     map[string]int
	change   map[int]bool
	stickyP  float64
	Diverged int
}

func newChooser(sp SchedSpec) *chooser {
	c := &chooser{strategy: sp.Strategy, rng: NewRng(sp.Seed), explicit: sp.Explicit, prio: map[string]int{}, change: map[int]bool{}, stickyP: 0.75}
	if c.strategy == "" {
		c.strategy = "fifo"
	}
	if c.strategy == "pct" {
		for i := 0; i < sp.Depth; i++ {
			c.change[1+c.rng.Intn(max(1, sp.Horizon))] = true
		}
	}
	return c
}

func rootOf(t *Task) *Task {
	for t.Parent != nil && t.Origin == "lib" {
		t = t.Parent
	}
	return t
}

func lowest(en []*Task) *Task {
	best := en[0]
	for _, t := range en[1:] {
		if t.Idx < best.Idx {
			best = t
		}
	}
	return best
}

func (c *chooser) deflt(s *Sim, en []*Task) *Task {
	if s.last != nil {
		for _, t := range en {
			if t == s.last {
				return t
			}
		}
		// prefer children of the last task (nested requests run next), then lowest id
		for _, t := range en {
			if t.Parent == s.last {
				return t
			}
		}
	}
	return lowest(en)
}

func (c *chooser) choose(s *Sim, en []*Task) *Task {
	if len(en) == 1 && c.strategy != "explicit" {
		return en[0]
	}
	switch c.strategy {
	case "explicit":
		for c.pos < len(c.explicit) {
			id := c.explicit[c.pos]
			c.pos++
			if id == "" {
				return c.deflt(s, en)
			}
			for _, t := range en {
				if t.ID == id {
					return t
				}
			}
			c.Diverged++
		}
		return c.deflt(s, en)
	case "random":
		return en[c.rng.Intn(len(en))]
	case "sticky":
		if s.last != nil && c.rng.Chance(c.stickyP) {
			for _, t := range en {
				if t == s.last {
					return t
				}
			}
		}
		return en[c.rng.Intn(len(en))]
	case "pct":
		// priorities assigned at first sight; at change points the running
		// task's priority drops below everything.
		for _, t := range en {
			if _, ok := c.prio[t.ID]; !ok {
				c.prio[t.ID] = 1000 + c.rng.Intn(1000000)
			}
		}
		if c.change[s.Steps] && s.last != nil {
			c.prio[s.last.ID] = -s.Steps
		}
		best := en[0]
		for _, t := range en[1:] {
			if c.prio[t.ID] > c.prio[best.ID] {
				best = t
			}
		}
		return best
	}
	return c.deflt(s, en)
}

func sortedKeys[V any](m map[string]V) []string {
	ks := make([]string, 0, len(m))
	for k := range m {
		ks = append(ks, k)
	}
	sort.Strings(ks)
	return ks
}
