package sim

import (
	"fmt"
	"os"
	"runtime"
	"runtime/debug"
	"testing"
)

// TestSim is the single entry point of the simulator binary; VERIF_MODE selects what it does.
func TestSim(t *testing.T) {
	// one P per shard process (the driver starts one process per core) and no background GC: per-P caches such as
	// sync.Pool then behave reproducibly should a change under test introduce them; Execute collects explicitly.
	runtime.GOMAXPROCS(1)
	debug.SetGCPercent(-1)
	switch os.Getenv("VERIF_MODE") {
	case "shard":
		runShard(t)
	case "replay":
		runReplay(t)
	case "props":
		dumpProps()
	case "minimize":
		runMinimize(t)
	case "":
		t.Skip("set VERIF_MODE")
	default:
		fmt.Fprintln(os.Stderr, "unknown VERIF_MODE")
		os.Exit(2)
	}
}
