package sim

import (
	"fmt"
	"os"
	"testing"
)

// TestSim is the single entry point of the simulator binary; VERIF_MODE selects what it does.
func TestSim(t *testing.T) {
	switch os.Getenv("VERIF_MODE") {
	case "shard":
		runShard(t)
	case "replay":
		runReplay(t)
	case "props":
		dumpProps()
	case "minimize":
		runMinimize(t)
	case "":
		t.Skip("set VERIF_MODE")
	default:
		fmt.Fprintln(os.Stderr, "unknown VERIF_MODE")
		os.Exit(2)
	}
}
