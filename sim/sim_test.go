package sim

import (
	"encoding/json"
	"fmt"
	"os"
	"testing"
)

func TestSmoke(t *testing.T) {
	if os.Getenv("VERIF_SMOKE") == "" {
		t.Skip()
	}
	bob := J{"@context": asCtx, "type": "Person", "id": "https://r.example/u/bob", "inbox": "https://r.example/u/bob/inbox"}
	spec := &RunSpec{Property: "C09", World: WorldSpec{
		Servers: []ServerSpec{{Host: "a.example", Social: true, Federating: true, Actors: []string{"alice"}, DeliverDepth: 2, ForwardDepth: 2}},
		Remote:  []DocSpec{{ID: "https://r.example/u/bob", Doc: mustJSON(bob)}},
	},
		Requests: []ReqSpec{{ID: "r0", Server: "a.example", Kind: "postOutbox", Actor: "alice",
			Body: mustJSON(J{"@context": asCtx, "type": "Note", "content": "hi", "to": []string{"https://r.example/u/bob"}, "bcc": "https://r.example/u/bob"})}},
	}
	res := Execute(t, spec)
	for _, e := range res.Sim.Log {
		b, _ := json.Marshal(e)
		fmt.Println(string(b))
	}
	fmt.Println("verdict", res.Verdict, "steps", res.Steps, "harness", res.Harness, "viol", res.Viol, res.LogHash)
}
