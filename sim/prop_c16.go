package sim

// C16: client Update / Delete / Add / Remove / Like / Block at the outbox with default callbacks.

import (
	"fmt"
	"strings"
	"time"
)

func genC16(r *Rng, k int) *RunSpec {
	o := defaultOpt()
	if r.Intn(4) == 0 {
		o.Federating = false
	}
	if r.Intn(3) == 0 {
		o.Transport = "queued"
	}
	st := newStd(o)
	a := &st.W.Servers[0]
	a.ClockBase = 1_500_000_000 + int64(r.Intn(400_000_000))
	a.Zone = Pick(r, []int{0, 0, 3600, -18000, 19800})
	a.ClockSkewS = int64(r.Intn(7200) - 3600)
	a.ClockFine = r.Bool()
	// stored objects with random member sets
	members := []string{"content", "summary", "name", "published", "updated", "attributedTo", "url", "x-extension", "attachment", "location", "icon"}
	val := func(m string, i int) interface{} {
		switch m {
		case "attachment", "icon":
			// a member holding one embedded value; the stored one and the supplied one have different members of their own
			if i < 50 {
				return J{"type": "Document", "name": fmt.Sprint("stored-", m, i), "mediaType": "image/png", "url": fmt.Sprintf("https://%s/media/%d.png", hostA, i)}
			}
			return J{"type": "Image", "url": fmt.Sprintf("https://%s/media/new%d.jpg", hostA, i)}
		case "location":
			if i < 50 {
				return J{"type": "Place", "name": fmt.Sprint("stored place ", i), "latitude": 1.5, "longitude": 2.5}
			}
			return J{"type": "Place", "name": fmt.Sprint("new place ", i)}
		case "published":
			return fmt.Sprintf("2019-0%d-01T00:00:00Z", 1+i%9)
		case "updated":
			return fmt.Sprintf("2019-1%d-02T03:04:05Z", i%3)
		case "attributedTo":
			return st.Alice.ID
		case "url":
			return fmt.Sprintf("https://%s/view/%d", hostA, i)
		}
		return fmt.Sprintf("%s-%d", m, i)
	}
	var objs []string
	a.Docs = nil
	for i := 0; i < 3; i++ {
		id := fmt.Sprintf("https://%s/o/%d", hostA, i)
		d := J{"@context": asCtx, "type": Pick(r, []string{"Note", "Article", "Image", "Video"}), "id": id}
		for _, m := range members {
			if r.Bool() {
				d[m] = val(m, i)
			}
		}
		a.Docs = append(a.Docs, DocSpec{id, mustJSON(d)})
		objs = append(objs, id)
	}
	if r.Intn(4) == 0 {
		// one of the objects was deleted some time ago already: what is stored is a Tombstone
		a.Docs[2] = DocSpec{objs[2], mustJSON(J{"@context": asCtx, "type": "Tombstone", "id": objs[2], "formerType": "Note", "deleted": "2018-03-03T03:03:03Z"})}
	}
	if r.Intn(3) == 0 {
		// the application has callbacks of its own behind the defaults
		cbs := map[string]string{}
		for _, t := range []string{"Update", "Delete", "Add", "Remove", "Like", "Block"} {
			if r.Bool() {
				cbs[t] = "wrapped"
			}
		}
		a.SocCb = cbs
	}
	dupCol := "https://" + hostA + "/c/dup"
	// owned target collections come in all four kinds
	t1 := Pick(r, []string{"Collection", "Collection", "CollectionPage"})
	t2 := Pick(r, []string{"OrderedCollection", "OrderedCollection", "OrderedCollectionPage"})
	a.Docs = append(a.Docs,
		DocSpec{st.Col1, mustJSON(J{"@context": asCtx, "type": t1, "id": st.Col1, "items": []string{st.Dave}})},
		DocSpec{st.OCol1, mustJSON(J{"@context": asCtx, "type": t2, "id": st.OCol1, "orderedItems": []string{st.Erin, st.Dave}})},
		DocSpec{dupCol, mustJSON(J{"@context": asCtx, "type": "OrderedCollection", "id": dupCol, "orderedItems": []string{st.Dave, st.Erin, st.Dave, objs[0], st.Dave}})},
	)
	if r.Intn(3) == 0 {
		// collections whose entries are kept as embedded values, not bare references: what stays, stays as it is
		keep := J{"type": "Note", "id": "https://" + hostA + "/o/kept", "content": "an entry with members", "summary": "kept"}
		a.Docs = append(a.Docs,
			DocSpec{st.Col1, mustJSON(J{"@context": asCtx, "type": "Collection", "id": st.Col1, "items": []interface{}{keep, st.Dave, J{"type": "Person", "id": st.Erin, "name": "erin"}}})},
			DocSpec{st.OCol1, mustJSON(J{"@context": asCtx, "type": "OrderedCollection", "id": st.OCol1, "orderedItems": []interface{}{st.Erin, keep, st.Dave}})})
	}
	if r.Bool() { // otherwise the liked collection has no items member yet
		before := []string{"https://" + hostR + "/n/liked-before"}
		if r.Bool() {
			before = append(before, objs[0], st.RNote) // liking these again must still put them at the front
		}
		a.Docs = append(a.Docs, DocSpec{st.Alice.Liked, mustJSON(J{"@context": asCtx, "type": "Collection", "id": st.Alice.Liked, "items": before})})
	}
	if r.Intn(3) == 0 { // target collections without an items member
		a.Docs = append(a.Docs, DocSpec{st.Col1, mustJSON(J{"@context": asCtx, "type": "Collection", "id": st.Col1})})
	}
	rcol := "https://" + hostR + "/c/x"
	st.W.Remote = append(st.W.Remote, DocSpec{rcol, mustJSON(J{"@context": asCtx, "type": "Collection", "id": rcol, "items": []string{st.Erin}})})
	body := J{"@context": asCtx, "actor": st.Alice.ID, "to": st.Dave}
	pick13 := func(pool []string) []interface{} {
		p := r.Perm(len(pool))
		var out []interface{}
		for i, n := 0, 1+r.Intn(3); i < n && i < len(pool); i++ {
			out = append(out, pool[p[i]])
		}
		return out
	}
	typ := Pick(r, []string{"Update", "Delete", "Add", "Remove", "Like", "Block", "Update", "Delete"})
	body["type"] = typ
	if r.Intn(5) == 0 {
		// co-signed: the activity names other actors beside (even before) the owner of the outbox it is posted to
		other := Pick(r, []string{st.Carol.ID, st.Dave})
		if r.Bool() {
			body["actor"] = []string{other, st.Alice.ID}
		} else {
			body["actor"] = []string{st.Alice.ID, other}
		}
	}
	switch typ {
	case "Update":
		var os []interface{}
		for _, idv := range pick13(objs) {
			before := mustParseJ(a.docOf(idv.(string)))
			u := J{"type": before["type"], "id": idv}
			for i, m := range members {
				switch r.Intn(5) {
				case 0:
					u[m] = val(m, 50+i)
				case 1:
					u[m] = nil // object-level null
				}
			}
			os = append(os, u)
		}
		if r.Intn(4) == 0 {
			// the same stored object named a second time, with other members: entries apply one after another
			first := os[0].(J)
			again := J{"type": first["type"], "id": first["id"]}
			for i, m := range members {
				if r.Intn(4) == 0 {
					again[m] = val(m, 70+i)
				}
			}
			os = append(os, again)
		}
		if len(os) == 1 && r.Bool() {
			body["object"] = os[0]
		} else {
			body["object"] = os
		}
		// activity-level nulls (what the code consults)
		for _, m := range members {
			if r.Intn(8) == 0 {
				body[m] = nil
			}
		}
	case "Delete":
		var os []interface{}
		for _, idv := range pick13(objs) {
			switch r.Intn(4) {
			case 0: // an embedded stub instead of the IRI: the Tombstone must still describe the stored object
				os = append(os, J{"id": idv, "type": Pick(r, []string{"Object", "Note", "Article"})})
			default:
				os = append(os, idv)
			}
		}
		body["object"] = os
	case "Add", "Remove":
		pool := []string{st.Col1, st.OCol1, dupCol, rcol}
		body["target"] = pick13(pool)
		if typ == "Add" {
			body["object"] = pick13([]string{objs[0], objs[1], st.RNote, "https://" + hostR + "/n/77"})
		} else {
			body["object"] = pick13([]string{st.Dave, st.Erin, objs[0]})
		}
		linkify(r, body)
	case "Like":
		body["object"] = pick13([]string{st.RNote, objs[0], objs[1], "https://" + hostR + "/n/78"})
		linkify(r, body)
	case "Block":
		body["object"] = pick13([]string{st.Dave, st.Erin})
	}
	// required member absent or empty
	switch r.Intn(10) {
	case 0:
		delete(body, "object")
	case 1:
		body["object"] = []interface{}{}
	case 2:
		if typ == "Add" || typ == "Remove" {
			if r.Bool() {
				delete(body, "target")
			} else {
				body["target"] = []interface{}{}
			}
			if r.Bool() {
				body["origin"] = Pick(r, []interface{}{st.Col1, []string{st.OCol1, st.Col1}, J{"type": "Collection", "id": st.Col1}}) // an origin is not a target
			}
		}
	}
	sp := mk("C16", st, outboxReq("r0", st.Alice, hostA, body))
	sp.Gen = fmt.Sprintf("c16/%d/%s", k, typ)
	sp.MapSeed = r.U64() | 1
	return sp
}

// linkify: now and then an object is given as an embedded Link-derived value that has an id of its own and points
// elsewhere (a bookmark): it is identified by its id.
func linkify(r *Rng, body J) {
	os, _ := body["object"].([]interface{})
	for i, o := range os {
		if id, ok := o.(string); ok && r.Intn(6) == 0 {
			os[i] = J{"type": Pick(r, []string{"Link", "Mention"}), "id": id, "href": "https://" + hostR + "/elsewhere/" + fmt.Sprint(i)}
		}
	}
}

func (s *ServerSpec) docOf(id string) []byte {
	for _, d := range s.Docs {
		if d.ID == id {
			return d.Doc
		}
	}
	return nil
}

func oracleC16(c *DriveCtx, res *Result) {
	s := res.Sim
	t := s.byID["r0"]
	if t == nil || !t.done || t.Panic != nil || t.EntryKind != "postOutbox" || len(res.Spec.Faults) > 0 {
		return
	}
	srv := s.World.Servers[t.Srv]
	me := srv.actorByName(t.Req.Actor)
	body, err := parseJ(t.Req.Body)
	if err != nil {
		return
	}
	typ := typeOf(body)
	before, after := res.Before[t.Srv], res.After[t.Srv]
	changed := map[string]bool{}
	for id, v := range after {
		if before[id] != v {
			changed[id] = true
		}
	}
	for id := range before {
		if _, ok := after[id]; !ok {
			changed[id] = true
		}
	}
	objs := aslist(body["object"])
	tgts := aslist(body["target"])
	needTarget := typ == "Add" || typ == "Remove"
	_, hasObj := body["object"]
	_, hasTgt := body["target"]
	if !hasObj || len(objs) == 0 || (needTarget && (!hasTgt || len(tgts) == 0)) {
		s.probe("c16-required-member-missing")
		if t.Err != nil || t.Rec.Status != 400 {
			s.violate("C16", "missing-member-not-400", typ, fmt.Sprintf("%s lacking object/target answered %d err=%v; expected 400", typ, t.Rec.Status, t.Err))
		}
		if len(changed) > 0 {
			s.violate("C16", "missing-member-changed-data", typ, fmt.Sprintf("%s lacking object/target changed %v", typ, sortedKeys(changed)))
		}
		return
	}
	if t.Err != nil || t.Rec.Status != 201 {
		if nestedFailure(res, t) {
			return
		}
		s.violate("C16", "valid-activity-refused", typ, fmt.Sprintf("%s ended with status %d err=%v", typ, t.Rec.Status, t.Err))
		return
	}
	s.probe("c16-applied:" + typ)
	newID := t.Rec.Header().Get("Location")
	expect := map[string]bool{me.Outbox: true, newID: true}
	ownedBy := func(id string) bool { _, ok := before[id]; return ok && hostOf(id) == t.Srv }
	switch typ {
	case "Update":
		// entries naming the same object apply one after another: fold them into one supplied-member map per id
		folded := map[string]map[string]interface{}{}
		var order []string
		for _, o := range objs {
			om, _ := o.(map[string]interface{})
			id := idOf(om)
			if folded[id] == nil {
				folded[id] = map[string]interface{}{}
				order = append(order, id)
			}
			for k, v := range om {
				folded[id][k] = v
			}
		}
		for _, id := range order {
			om := folded[id]
			expect[id] = true
			old := mustParseJ([]byte(before[id]))
			got := mustParseJ([]byte(after[id]))
			for k, v := range om {
				_, actNull := body[k]
				actNull = actNull && body[k] == nil
				if v == nil {
					s.probe("c16-object-level-null")
					if _, still := got[k]; still {
						if _, was := old[k]; was {
							s.violate("C16", "update-null-not-removed", "Update", fmt.Sprintf("member %q was supplied as JSON null in the object of the Update but %s still has it (%v)", k, id, got[k]))
						}
					}
					continue
				}
				if actNull {
					continue // null at activity level, value at object level: the statement does not decide
				}
				if !sameDoc(got[k], v) {
					s.violate("C16", "update-member-not-replaced", "Update", fmt.Sprintf("%s.%s is %v after the Update, supplied %v", id, k, got[k], v))
				}
			}
			for k, v := range old {
				if k == "@context" {
					continue
				}
				if _, supplied := om[k]; supplied {
					continue
				}
				if bv, ok := body[k]; ok && bv == nil {
					continue // activity-level null on an unsupplied member: code removes it; the statement is silent
				}
				if !sameDoc(got[k], v) {
					s.violate("C16", "update-touched-unsupplied-member", "Update", fmt.Sprintf("%s.%s was not supplied but changed from %v to %v", id, k, v, got[k]))
				}
			}
			for k := range got {
				if k == "@context" {
					continue
				}
				if _, a := old[k]; a {
					continue
				}
				if v, b := om[k]; b && v != nil {
					continue
				}
				s.violate("C16", "update-invented-member", "Update", fmt.Sprintf("%s gained member %q that was neither stored nor supplied", id, k))
			}
		}
	case "Delete":
		var reads []time.Time
		for _, rd := range srv.Clock.Reads {
			if rd.Task == t.ID {
				reads = append(reads, rd.At)
			}
		}
		for _, o := range objs {
			id := idOf(o)
			expect[id] = true
			old := mustParseJ([]byte(before[id]))
			got := mustParseJ([]byte(after[id]))
			if typeOf(got) != "Tombstone" || idOf(got) != id {
				s.violate("C16", "delete-not-tombstone", "Delete", fmt.Sprintf("%s is %s after Delete", id, trunc(canonJSON(got), 200)))
				continue
			}
			if canonJSON(simplify(got["formerType"])) != canonJSON(typeOf(old)) {
				s.violate("C16", "tombstone-former-type", "Delete", fmt.Sprintf("formerType is %v, the deleted object was a %s", got["formerType"], typeOf(old)))
			}
			for _, k := range []string{"published", "updated"} {
				if !sameDoc(got[k], old[k]) {
					s.violate("C16", "tombstone-times", "Delete", fmt.Sprintf("Tombstone %s is %v, the object had %v", k, got[k], old[k]))
				}
			}
			okTime := false
			ds, _ := got["deleted"].(string)
			if dt, err := time.Parse(time.RFC3339, ds); err == nil {
				for _, rd := range reads {
					if rd.Unix() == dt.Unix() {
						okTime = true
					}
				}
			}
			if !okTime {
				s.violate("C16", "tombstone-deleted-time", "Delete", fmt.Sprintf("deleted is %q; the application clock told this request %v", ds, reads))
			}
			for k := range got {
				switch k {
				case "@context", "type", "id", "formerType", "published", "updated", "deleted":
				default:
					s.violate("C16", "tombstone-extra-member", "Delete", fmt.Sprintf("Tombstone carries %q", k))
				}
			}
		}
	case "Add", "Remove":
		oids := idsOf(body["object"])
		for _, tid := range idsOf(body["target"]) {
			if !ownedBy(tid) {
				continue
			}
			expect[tid] = true
			old, now := collIDs(before[tid], ""), collIDs(after[tid], "")
			var want []string
			if typ == "Add" {
				want = append(append([]string{}, old...), oids...)
			} else {
				rm := setOf(oids)
				for _, x := range old {
					if !rm[x] {
						want = append(want, x)
					}
				}
			}
			if !equalStrs(now, want) {
				s.violate("C16", strings.ToLower(typ)+"-target", typ, fmt.Sprintf("%s holds %v after %s of %v; expected %v", tid, now, typ, oids, want))
			} else {
				// the entries that stay are the entries that were there (an embedded value keeps its members)
				was := map[string]interface{}{}
				for _, e := range collEntries(before[tid]) {
					if _, dup := was[idOf(e)]; !dup {
						was[idOf(e)] = e
					}
				}
				for _, e := range collEntries(after[tid]) {
					if w, ok := was[idOf(e)]; ok && !sameDoc(w, e) {
						s.violate("C16", strings.ToLower(typ)+"-entry-altered", typ, fmt.Sprintf("entry %s of %s was %s and is %s after the %s", idOf(e), tid, canonJSON(w), canonJSON(e), typ))
						break
					}
				}
			}
		}
	case "Like":
		expect[me.Liked] = true
		oids := idsOf(body["object"])
		old, now := collIDs(before[me.Liked], ""), collIDs(after[me.Liked], "")
		if len(now) != len(old)+len(oids) || !multisetEq(now[:min(len(oids), len(now))], oids) || !equalStrs(now[min(len(oids), len(now)):], old) {
			s.violate("C16", "liked-front", "Like", fmt.Sprintf("liked is %v; expected the object ids %v (any order) in front of %v", now, oids, old))
		}
	case "Block":
		for _, wm := range s.World.Wire {
			if wm.Task == t.ID || strings.HasPrefix(wm.Task, t.ID+".") {
				s.violate("C16", "block-delivered", "Block", "a Block reached the transport: "+trunc(wm.Payload, 200))
			}
		}
		if _, ok := after[newID]; !ok {
			s.violate("C16", "block-not-stored", "Block", "the Block was not stored")
		}
		if ids := collIDs(after[me.Outbox], ""); len(ids) == 0 || ids[0] != newID {
			s.violate("C16", "block-not-listed", "Block", fmt.Sprintf("outbox is %v; the Block %s must be listed at the front", ids, newID))
		}
	}
	for _, id := range sortedKeys(changed) {
		if expect[id] {
			continue
		}
		if before[id] != "" && sameDoc(mustParseJ([]byte(before[id])), mustParseJ([]byte(after[id]))) {
			continue
		}
		inv := "unexpected-change"
		if hostOf(id) != t.Srv {
			inv = "modified-data-not-owned"
		}
		s.violate("C16", inv, typ, fmt.Sprintf("%s changed %s, which the documented effect does not touch", typ, id))
	}
}

func init() {
	register(&PropDef{
		ID: "C16", Level: "exploration", Engine: "fedsim",
		Rule: "case = one client Update / Delete / Add / Remove / Like / Block posted to an outbox with default callbacks: stored objects with random member sets against random partial updates (overlapping, disjoint, null-valued members at object and activity level), 1-3 objects and 1-3 targets (owned / foreign / ordered / unordered / with duplicates), object or target absent or empty in 30% of the cases, per-server clock base, skew and zone; oracle = model of the documented effect compared with the database delta, the liked / target collection order, the outbox, the wire (Block never delivered), the status (400 and no change when a required member is missing) and the Tombstone's deleted time against the simulated clock reading of that request.",
		QuickCases: 8000, QuickBudgetS: 150, ThoroughBudgetS: 600,
		Drive:  func(c *DriveCtx, r *Rng, k int) { c.Exec(genC16(r, k)) },
		Oracle: oracleC16,
		Assumptions: []string{"'removes the members supplied as JSON null' is read as: null-valued members of the activity's object (the quantifier's 'null-valued members' of partial updates); members that are null only at activity level are not judged"},
	})
}

func collEntries(raw string) []interface{} {
	m, err := parseJ([]byte(raw))
	if err != nil {
		return nil
	}
	if v, ok := m["orderedItems"]; ok {
		return aslist(v)
	}
	return aslist(m["items"])
}
