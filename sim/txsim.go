package sim

// txsim: the real pub.HttpSigTransport and the real httpsig signers over a
// simulated HTTP client. Goroutines of BatchDeliver and the signer mutexes
// are owned by the scheduler through the T2/T3 rewrite.

import (
	"bytes"
	"context"
	"crypto"
	"crypto/rsa"
	"crypto/x509"
	"encoding/pem"
	"errors"
	"fmt"
	"io"
	"net/http"
	"net/url"
	"strconv"
	"strings"

	"github.com/go-fed/activity/pub"
	"github.com/go-fed/httpsig"
)

type TxSpec struct {
	Algo    string            `json:"algo"`    // rsa-sha256 | hmac-sha256
	Headers []string          `json:"headers"` // signed header list
	Fates   map[string]string `json:"fates"`   // "<task>#<nth Do>" -> "status:NNN" | "err" | "short"
	Agent   string            `json:"agent"`
	KeyID   string            `json:"key_id"`
}

type txAttempt struct {
	Task   string
	Method string
	URL    string
	Status int
	Fate   string
	Seq    int
}

type txSign struct {
	Task string
	Body []byte
	Hdr  http.Header
	URL  string
	Seq  int
}

type TxWorld struct {
	s        *Sim
	spec     *TxSpec
	tp       *pub.HttpSigTransport
	priv     crypto.PrivateKey
	pub      crypto.PublicKey
	algo     httpsig.Algorithm
	Attempts []txAttempt
	SignFails []txAttempt // requests the signer refused (fault sign_err): they never reach the HTTP client
	Signs    []txSign
	inSigner map[string]string // signer name -> task currently inside
	clock    *SimClock
}

var txRSAKey *rsa.PrivateKey

func txKey() *rsa.PrivateKey {
	if txRSAKey == nil {
		blk, _ := pem.Decode([]byte(txKeyPEM))
		k, err := x509.ParsePKCS1PrivateKey(blk.Bytes)
		if err != nil {
			panic("sim: bad embedded key: " + err.Error())
		}
		txRSAKey = k
	}
	return txRSAKey
}

type recSigner struct {
	w    *TxWorld
	name string
	real httpsig.Signer
}

func (r *recSigner) SignRequest(pKey crypto.PrivateKey, pubKeyId string, req *http.Request, body []byte) error {
	w := r.w
	s := w.s
	if s.inAbort() {
		return errInjected
	}
	t := s.curTask()
	if other, busy := w.inSigner[r.name]; busy {
		s.violate("C19", "signer-not-exclusive", r.name, fmt.Sprintf("%s entered the %s signer while %s was still inside it", taskID(t), r.name, other))
	}
	w.inSigner[r.name] = taskID(t)
	// the signer is stateful: let the scheduler interleave other tasks while we are inside
	msg := s.yield(Op{Kind: opCall, Method: "signer." + r.name})
	t = s.cur
	defer delete(w.inSigner, r.name)
	if msg.fault != nil {
		s.logEv(Event{Kind: "signer." + r.name, ID: req.URL.String(), Fault: true, Res: "err"})
		w.SignFails = append(w.SignFails, txAttempt{Task: t.ID, Method: req.Method, URL: req.URL.String(), Fate: "sign_err", Seq: len(s.Log)})
		return errInjected
	}
	// arguments
	if pubKeyId != w.spec.KeyID {
		s.violate("C19", "wrong-key-id", r.name, fmt.Sprintf("signer was given key id %q, configured %q", pubKeyId, w.spec.KeyID))
	}
	if !sameKey(pKey, w.priv) {
		s.violate("C19", "wrong-key", r.name, "signer was given a different private key")
	}
	hdr := req.Header.Clone()
	for _, h := range []string{"Date", "Host", "User-Agent"} {
		if hdr.Get(h) == "" {
			s.violate("C19", "header-missing-at-signing", h, fmt.Sprintf("%s was not set when the request was handed to the signer", h))
		}
	}
	w.Signs = append(w.Signs, txSign{Task: t.ID, Body: append([]byte(nil), body...), Hdr: hdr, URL: req.URL.String(), Seq: len(s.Log)})
	s.logEv(Event{Kind: "signer." + r.name, ID: req.URL.String(), Arg: len(body)})
	err := r.real.SignRequest(pKey, pubKeyId, req, body)
	if err != nil {
		// the real signer refused (e.g. a signed-header list that names Digest and a request without body bytes):
		// a failed attempt that never reaches the HTTP client, like an injected signer failure
		w.SignFails = append(w.SignFails, txAttempt{Task: t.ID, Method: req.Method, URL: req.URL.String(), Fate: "sign_refused", Seq: len(s.Log)})
		s.probe("c19-real-signer-refused")
	}
	return err
}

func (r *recSigner) SignResponse(pKey crypto.PrivateKey, pubKeyId string, rw http.ResponseWriter, body []byte) error {
	return r.real.SignResponse(pKey, pubKeyId, rw, body)
}

func sameKey(a, b crypto.PrivateKey) bool {
	switch x := a.(type) {
	case *rsa.PrivateKey:
		y, ok := b.(*rsa.PrivateKey)
		return ok && x == y
	case []byte:
		y, ok := b.([]byte)
		return ok && bytes.Equal(x, y)
	}
	return false
}

type simHTTP struct{ w *TxWorld }

type shortBody struct{ r io.Reader }

func (b *shortBody) Read(p []byte) (int, error) {
	n, err := b.r.Read(p)
	if err == io.EOF {
		return n, errors.New("sim: connection reset while reading the body")
	}
	return n, err
}
func (b *shortBody) Close() error { return nil }

func (c simHTTP) Do(req *http.Request) (*http.Response, error) {
	w := c.w
	s := w.s
	if s.inAbort() {
		return nil, errInjected
	}
	s.yield(Op{Kind: opCall, Method: "http.Do", ID: req.URL.String()})
	t := s.cur
	var body []byte
	if req.Body != nil {
		body, _ = io.ReadAll(req.Body)
	}
	fate := w.spec.Fates[fmt.Sprintf("%s#%d", t.ID, t.calls["http.Do"])]
	if fate == "" {
		fate = "status:200"
	}
	at := txAttempt{Task: t.ID, Method: req.Method, URL: req.URL.String(), Fate: fate, Seq: len(s.Log)}
	w.checkRequest(t, req, body)
	s.Fired["http:"+strings.SplitN(fate, ":", 2)[0]]++
	switch {
	case fate == "err":
		w.Attempts = append(w.Attempts, at)
		s.logEv(Event{Kind: "http.Do", ID: req.URL.String(), Res: "err", Arg: req.Method})
		return nil, &url.Error{Op: strings.Title(strings.ToLower(req.Method)), URL: req.URL.String(), Err: errors.New("sim: connection refused")}
	case fate == "err:empty":
		// an error value is an error whatever its text
		w.Attempts = append(w.Attempts, at)
		s.logEv(Event{Kind: "http.Do", ID: req.URL.String(), Res: fate, Arg: req.Method})
		return nil, errors.New("")
	case fate == "err:temporary":
		// what net/http reports when a reused keep-alive connection was closed by the peer
		w.Attempts = append(w.Attempts, at)
		s.logEv(Event{Kind: "http.Do", ID: req.URL.String(), Res: fate, Arg: req.Method})
		return nil, tempNetErr{req.URL.String()}
	case strings.HasPrefix(fate, "status:") || fate == "short":
		code := 200
		if fate != "short" {
			code, _ = strconv.Atoi(fate[7:])
		}
		at.Status = code
		w.Attempts = append(w.Attempts, at)
		s.logEv(Event{Kind: "http.Do", ID: req.URL.String(), Res: fate, Arg: req.Method})
		doc := txDoc(req.URL.String())
		var rb io.ReadCloser = io.NopCloser(bytes.NewReader(doc))
		clen := int64(-1)
		if (len(s.Log)+len(req.URL.Path))%3 == 0 {
			// a body that arrives in pieces, with its length announced (what a real connection does)
			rb, clen = io.NopCloser(&pieceReader{b: doc, n: 1 + len(doc)/3}), int64(len(doc))
		}
		if fate == "short" {
			rb = &shortBody{bytes.NewReader(doc[:len(doc)/2])}
		}
		return &http.Response{StatusCode: code, Status: fmt.Sprintf("%d %s", code, http.StatusText(code)), Body: rb, Header: http.Header{}, Request: req, ContentLength: clen}, nil
	}
	panic("sim: unknown fate " + fate)
}

// checkRequest: what the HTTP client receives must carry the documented headers and a signature that verifies.
func (w *TxWorld) checkRequest(t *Task, req *http.Request, body []byte) {
	s := w.s
	site := req.Method
	h := req.Header
	wantUA := w.spec.Agent + " (go-fed/activity v1.0.0)"
	if h.Get("User-Agent") != wantUA {
		s.violate("C19", "user-agent", site, fmt.Sprintf("User-Agent %q, expected %q", h.Get("User-Agent"), wantUA))
	}
	if h.Get("Host") != req.URL.Host {
		s.violate("C19", "host-header", site, fmt.Sprintf("Host %q for %s", h.Get("Host"), req.URL))
	}
	if req.Method == "GET" && h.Get("Accept") != ctLD {
		s.violate("C19", "accept-header", site, fmt.Sprintf("Accept %q", h.Get("Accept")))
	}
	if req.Method == "POST" && h.Get("Content-Type") != ctLD {
		s.violate("C19", "content-type-header", site, fmt.Sprintf("Content-Type %q", h.Get("Content-Type")))
	}
	okDate := false
	for _, rd := range w.clock.Reads {
		if rd.Task == t.ID && rd.At.UTC().Format("Mon, 02 Jan 2006 15:04:05")+" GMT" == h.Get("Date") {
			okDate = true
		}
	}
	if !okDate {
		s.violate("C19", "date-header", site, fmt.Sprintf("Date %q is not a reading the clock gave this request", h.Get("Date")))
	}
	// the signer saw this request: same task, latest
	var sg *txSign
	for i := len(w.Signs) - 1; i >= 0; i-- {
		if w.Signs[i].Task == t.ID && w.Signs[i].URL == req.URL.String() {
			sg = &w.Signs[i]
			break
		}
	}
	if sg == nil {
		s.violate("C19", "not-signed", site, fmt.Sprintf("%s %s reached the HTTP client without having been handed to the signer", req.Method, req.URL))
		return
	}
	if req.Method == "POST" && !bytes.Equal(sg.Body, body) {
		s.violate("C19", "signed-body-differs", site, fmt.Sprintf("the signer was given %d body bytes, the request sends %d different bytes", len(sg.Body), len(body)))
	}
	for k, v := range sg.Hdr {
		if strings.Join(h[k], "\x00") != strings.Join(v, "\x00") {
			s.violate("C19", "header-altered-after-signing", k, fmt.Sprintf("header %s was %q at signing time and is %q on the wire", k, v, h[k]))
		}
	}
	for k := range h {
		if _, ok := sg.Hdr[k]; !ok && k != "Signature" && k != "Authorization" && k != "Digest" {
			s.violate("C19", "header-added-after-signing", k, fmt.Sprintf("header %s appeared after signing", k))
		}
	}
	// (the Digest value itself is produced by the httpsig dependency and is not part of the statement; with the pinned
	// httpsig version it is base64(body || sha256("")), see DESIGN.md section 8)
	v, err := httpsig.NewVerifier(req)
	if err != nil {
		s.violate("C19", "signature-unverifiable", site, "no verifiable signature on the request: "+err.Error())
		return
	}
	if v.KeyId() != w.spec.KeyID {
		s.violate("C19", "signature-key-id", site, fmt.Sprintf("signature names key %q", v.KeyId()))
	}
	if err := v.Verify(w.pub, w.algo); err != nil {
		s.violate("C19", "signature-invalid", site, fmt.Sprintf("the signature does not verify on what the HTTP client received: %v", err))
	}
}

func buildTx(s *Sim, spec *TxSpec, clock *SimClock) *TxWorld {
	w := &TxWorld{s: s, spec: spec, inSigner: map[string]string{}, clock: clock}
	var prefs []httpsig.Algorithm
	switch spec.Algo {
	case "hmac-sha256":
		key := []byte("simulation-shared-secret-0123456789")
		w.priv, w.pub, w.algo = key, key, httpsig.HMAC_SHA256
		prefs = []httpsig.Algorithm{httpsig.HMAC_SHA256}
	default:
		k := txKey()
		w.priv, w.pub, w.algo = k, &k.PublicKey, httpsig.RSA_SHA256
		prefs = []httpsig.Algorithm{httpsig.RSA_SHA256}
	}
	getHdrs := make([]string, 0, len(spec.Headers))
	for _, h := range spec.Headers {
		if !strings.EqualFold(h, "digest") && !strings.EqualFold(h, "content-type") {
			getHdrs = append(getHdrs, h)
		}
	}
	g, _, err := httpsig.NewSigner(prefs, httpsig.DigestSha256, getHdrs, httpsig.Signature)
	if err != nil {
		panic("sim: httpsig.NewSigner: " + err.Error())
	}
	p, _, err := httpsig.NewSigner(prefs, httpsig.DigestSha256, spec.Headers, httpsig.Signature)
	if err != nil {
		panic("sim: httpsig.NewSigner: " + err.Error())
	}
	w.tp = pub.NewHttpSigTransport(simHTTP{w}, spec.Agent, clock, &recSigner{w, "get", g}, &recSigner{w, "post", p}, spec.KeyID, w.priv)
	return w
}

// runTx is the body of a txsim request task.
func (w *TxWorld) runTx(t *Task, rs *ReqSpec) {
	s := w.s
	t.Req, t.EntryKind = rs, rs.Kind
	t.authOK, t.blockOK = true, true
	ctx := context.Background()
	var us []*url.URL
	for _, r := range rs.Recipients {
		u, err := url.Parse(r)
		if err != nil {
			panic("sim: bad recipient " + r)
		}
		us = append(us, u)
	}
	s.logEv(Event{Task: t.ID, Kind: "req.start", ID: rs.Kind, Arg: rs.Recipients})
	switch rs.Kind {
	case "txBatch":
		t.Err = w.tp.BatchDeliver(ctx, rs.Body, us)
	case "txDeliver":
		t.Err = w.tp.Deliver(ctx, rs.Body, us[0])
	case "txDeref":
		var b []byte
		b, t.Err = w.tp.Dereference(ctx, us[0])
		t.Result = string(b)
		t.Held = b // the caller keeps what it was given; it is looked at again when the run is over
	}
	t.Handled = true
	res := "ok"
	if t.Err != nil {
		res = "err=" + trunc(t.Err.Error(), 300)
	}
	s.logEv(Event{Task: t.ID, Kind: "req.end", ID: rs.Kind, Res: res})
	// everything this call started must be finished when it returns
	for _, c := range s.tasks {
		// (a child that has passed its last seam may still be running its epilogue; one that is parked at a seam is in flight)
		if c.Parent == t && c.pending != nil {
			s.violate("C19", "returned-before-all-attempts-finished", rs.Kind, fmt.Sprintf("%s returned while delivery %s was still in flight", rs.Kind, c.ID))
		}
	}
}

type tempNetErr struct{ url string }

func (e tempNetErr) Error() string   { return "sim: " + e.url + ": connection reset by peer (temporary)" }
func (e tempNetErr) Temporary() bool { return true }
func (e tempNetErr) Timeout() bool   { return false }

// txDoc: the document the simulated network serves at url.
func txDoc(url string) []byte {
	return []byte(`{"@context":"https://www.w3.org/ns/activitystreams","type":"Note","id":"` + url + `","content":"` + strings.Repeat("lorem ipsum ", 8) + `"}`)
}

// pieceReader hands its bytes out n at a time.
type pieceReader struct {
	b []byte
	n int
}

func (p *pieceReader) Read(q []byte) (int, error) {
	if len(p.b) == 0 {
		return 0, io.EOF
	}
	k := p.n
	if k > len(q) {
		k = len(q)
	}
	if k > len(p.b) {
		k = len(p.b)
	}
	copy(q, p.b[:k])
	p.b = p.b[k:]
	return k, nil
}
