package sim

import (
	"bytes"
	"encoding/json"
	"fmt"
	"sort"
	"strings"
)

type J = map[string]interface{}

const asCtx = "https://www.w3.org/ns/activitystreams"
const publicIRI = "https://www.w3.org/ns/activitystreams#Public"

func mustJSON(v interface{}) json.RawMessage {
	b, err := json.Marshal(v)
	if err != nil {
		panic(err)
	}
	return b
}

func parseJ(b []byte) (J, error) {
	var m J
	d := json.NewDecoder(bytes.NewReader(b))
	if err := d.Decode(&m); err != nil {
		return nil, err
	}
	return m, nil
}

func mustParseJ(b []byte) J {
	m, err := parseJ(b)
	if err != nil {
		panic(fmt.Sprintf("bad json %q: %v", b, err))
	}
	return m
}

// normalise re-marshals v into plain interface{} trees with @context arrays sorted.
func normalise(v interface{}) interface{} {
	switch x := v.(type) {
	case json.RawMessage:
		var y interface{}
		if len(x) == 0 {
			return nil
		}
		if err := json.Unmarshal(x, &y); err != nil {
			return string(x)
		}
		return normalise(y)
	case []byte:
		return normalise(json.RawMessage(x))
	case map[string]interface{}:
		out := make(map[string]interface{}, len(x))
		for k, e := range x {
			if k == "@context" {
				if arr, ok := e.([]interface{}); ok {
					ss := make([]string, 0, len(arr))
					allStr := true
					for _, a := range arr {
						s, ok := a.(string)
						allStr = allStr && ok
						ss = append(ss, s)
					}
					if allStr {
						sort.Strings(ss)
						na := make([]interface{}, len(ss))
						for i, s := range ss {
							na[i] = s
						}
						out[k] = na
						continue
					}
				}
			}
			out[k] = normalise(e)
		}
		return out
	case []interface{}:
		out := make([]interface{}, len(x))
		for i, e := range x {
			out[i] = normalise(e)
		}
		return out
	case []string:
		out := make([]interface{}, len(x))
		for i, e := range x {
			out[i] = e
		}
		return out
	}
	// anything else: round-trip through JSON to get plain types
	switch v.(type) {
	case nil, string, float64, bool:
		return v
	}
	b, err := json.Marshal(v)
	if err != nil {
		return fmt.Sprint(v)
	}
	var y interface{}
	json.Unmarshal(b, &y)
	return normalise(y)
}

func canonJSON(v interface{}) string {
	if v == nil {
		return ""
	}
	b, err := json.Marshal(normalise(v))
	if err != nil {
		return fmt.Sprint(v)
	}
	return string(b)
}

// aslist views a JSON property value as a list (scalar = one element).
func aslist(v interface{}) []interface{} {
	switch x := v.(type) {
	case nil:
		return nil
	case []interface{}:
		return x
	case []string:
		out := make([]interface{}, len(x))
		for i, e := range x {
			out[i] = e
		}
		return out
	}
	return []interface{}{v}
}

// idOf returns the id of an IRI string or embedded object ("" if none).
func idOf(v interface{}) string {
	switch x := v.(type) {
	case string:
		return x
	case map[string]interface{}:
		if s, ok := x["id"].(string); ok {
			return s
		}
		if s, ok := x["href"].(string); ok {
			return s
		}
	}
	return ""
}

// idsOf returns the ids of a property value, in order, keeping duplicates.
func idsOf(v interface{}) []string {
	var out []string
	for _, e := range aslist(v) {
		out = append(out, idOf(e))
	}
	return out
}

func setOf(xs []string) map[string]bool {
	m := map[string]bool{}
	for _, x := range xs {
		m[x] = true
	}
	return m
}

func sortedSet(xs []string) []string {
	m := setOf(xs)
	out := make([]string, 0, len(m))
	for k := range m {
		out = append(out, k)
	}
	sort.Strings(out)
	return out
}

func sameSet(a, b []string) bool {
	x, y := sortedSet(a), sortedSet(b)
	if len(x) != len(y) {
		return false
	}
	for i := range x {
		if x[i] != y[i] {
			return false
		}
	}
	return true
}

func contains(xs []string, x string) bool {
	for _, y := range xs {
		if y == x {
			return true
		}
	}
	return false
}

func isPublic(s string) bool {
	return s == publicIRI || s == "Public" || s == "as:Public"
}

func typeOf(m J) string {
	switch x := m["type"].(type) {
	case string:
		return x
	case []interface{}:
		if len(x) > 0 {
			if s, ok := x[0].(string); ok {
				return s
			}
		}
	}
	return ""
}

func hostOf(iri string) string {
	s := iri
	if i := strings.Index(s, "://"); i >= 0 {
		s = s[i+3:]
	}
	if i := strings.IndexAny(s, "/?#"); i >= 0 {
		s = s[:i]
	}
	return s
}

func pathOf(iri string) string {
	s := iri
	if i := strings.Index(s, "://"); i >= 0 {
		s = s[i+3:]
	}
	if i := strings.IndexByte(s, '/'); i >= 0 {
		return s[i:]
	}
	return "/"
}

func cloneJ(m J) J {
	b, _ := json.Marshal(m)
	var o J
	json.Unmarshal(b, &o)
	return o
}

func trunc(s string, n int) string {
	if len(s) <= n {
		return s
	}
	return s[:n] + "…"
}

func mustUnmarshal(b []byte, v interface{}) {
	if err := json.Unmarshal(b, v); err != nil {
		panic("sim: bad expectation json: " + err.Error())
	}
}
