package sim

import (
	"io"
	"context"
	"encoding/json"
	"errors"
	"fmt"
	"net/url"
	"sort"
	"strings"

	"github.com/go-fed/activity/pub"
	"github.com/go-fed/activity/streams"
	"github.com/go-fed/activity/streams/vocab"
)

var errInjected = errors.New("sim: injected fault")

// injectedErr: the error value an injected fault returns. Applications return all sorts of errors, including the
// library's own sentinel ErrNotFound, io.EOF or a cancelled context; the value is a function of the site.
func injectedErr(s *Sim, f *FaultSpec, salt string) error {
	if f != nil {
		switch f.Arg {
		case "notfound":
			return pub.ErrNotFound
		case "eof":
			return io.EOF
		case "canceled":
			return context.Canceled
		case "deadline":
			return &url.Error{Op: "Get", URL: "https://timeout.example/", Err: context.DeadlineExceeded}
		}
		salt = f.Site + f.Arg
	}
	h := uint64(1469598103934665603)
	for _, c := range salt {
		h = (h ^ uint64(c)) * 1099511628211
	}
	h ^= s.Spec.MapSeed * 0x9e3779b97f4a7c15
	switch (h >> 20) % 6 {
	case 0:
		return pub.ErrNotFound
	case 1:
		return io.EOF
	case 2:
		return context.Canceled
	case 3:
		// what net/http returns for a per-request or client timeout
		return &url.Error{Op: "Get", URL: "https://timeout.example/", Err: context.DeadlineExceeded}
	}
	return errInjected
}
// injErr: the error a Database call made to fail returns - a private error, io.EOF, a driver's "query cancelled" wrapping
// context.Canceled, or a timeout; which one is a function of the call site and the run.
func (d *SimDB) injErr() error {
	salt := "db"
	if t := d.s.cur; t != nil {
		salt = fmt.Sprintf("%s#%d", t.ID, t.ord)
	}
	h := uint64(1469598103934665603)
	for _, c := range salt {
		h = (h ^ uint64(c)) * 1099511628211
	}
	h ^= d.s.Spec.MapSeed * 0x9e3779b97f4a7c15
	switch (h >> 20) % 6 {
	case 0:
		return fmt.Errorf("sim: query aborted: %w", context.Canceled)
	case 1:
		return io.EOF
	case 2:
		return &url.Error{Op: "Get", URL: "https://db.example/", Err: context.DeadlineExceeded}
	}
	return errInjected
}

var errMissing = errors.New("sim: no such entry")

// ActorDir describes one local actor.
type ActorDir struct {
	Name, ID, Inbox, Outbox, Followers, Following, Liked string
}

// SimDB is an alias-free in-memory pub.Database: values are stored as JSON
// produced by streams.Serialize and handed back freshly decoded.
type SimDB struct {
	s      *Sim
	srv    *Server
	store  map[string]json.RawMessage
	Writes int
}

var _ pub.Database = (*SimDB)(nil)

func (d *SimDB) host() string { return d.srv.Spec.Host }

func (d *SimDB) put(id string, m J) {
	d.store[id] = mustJSON(normalise(m))
}

func (d *SimDB) getJ(id string) J {
	b, ok := d.store[id]
	if !ok {
		return nil
	}
	return mustParseJ(b)
}

func (d *SimDB) snapshot() map[string]string {
	out := make(map[string]string, len(d.store))
	for k, v := range d.store {
		out[k] = string(v)
	}
	return out
}

func encodeType(t vocab.Type) (J, error) {
	m, err := streams.Serialize(t)
	if err != nil {
		return nil, err
	}
	// deep copy into plain JSON types
	b, err := json.Marshal(m)
	if err != nil {
		return nil, err
	}
	return parseJ(b)
}

func decodeType(b []byte) (vocab.Type, error) {
	m, err := parseJ(b)
	if err != nil {
		return nil, err
	}
	if m == nil {
		return nil, fmt.Errorf("sim: document is JSON null")
	}
	if _, ok := m["@context"]; !ok {
		m["@context"] = asCtx
	}
	return streams.ToType(context.Background(), m)
}

func ustr(u *url.URL) string {
	if u == nil {
		return "<nil>"
	}
	return u.String()
}

// call is the common prologue of every Database method: scheduling point,
// fault draw, lock-discipline monitor, event.
func (d *SimDB) call(method string, id string, needLock bool) (faulted bool, t *Task) {
	if d.s.inAbort() {
		return true, nil
	}
	op := Op{Kind: opCall, Method: "db." + method, Srv: d.host(), ID: id}
	msg := d.s.yield(op)
	t = d.s.cur
	d.s.monSeam(t, "db", method, d.host())
	if needLock && len(t.held) == 0 {
		d.s.violate("C09", "db-call-without-lock", "db."+method+"@"+callerFn(), fmt.Sprintf("task %s called Database.%s(%s) while holding no lock", t.ID, method, id))
	}
	if msg.fault != nil {
		d.s.logEv(Event{Srv: d.host(), Kind: "db." + method, ID: id, Fault: true, Res: "err"})
		return true, t
	}
	return false, t
}

func (d *SimDB) Lock(c context.Context, id *url.URL) error {
	if d.s.inAbort() {
		return nil
	}
	ids := ustr(id)
	t0 := d.s.curTask()
	key := d.host() + "|" + ids
	if t0 != nil {
		for _, h := range t0.held {
			if h == key {
				d.s.violate("C09", "relock-while-held", callerFn(), fmt.Sprintf("task %s locks %s again while still holding it", t0.ID, ids))
				d.s.probe("self-relock")
			}
		}
	}
	fn := callerFn()
	msg := d.s.yield(Op{Kind: opLock, Method: "db.Lock", Srv: d.host(), ID: ids, Fn: fn})
	t := d.s.cur
	if msg.fault == nil {
		if t.heldBy == nil {
			t.heldBy = map[string]string{}
		}
		t.heldBy[key] = fn
	}
	d.s.monSeam(t, "db", "Lock", d.host())
	if msg.fault != nil {
		d.s.logEv(Event{Srv: d.host(), Kind: "db.Lock", ID: ids, Fault: true, Res: "err"})
		return d.injErr()
	}
	d.s.logEv(Event{Srv: d.host(), Kind: "db.Lock", ID: ids})
	return nil
}

func (d *SimDB) Unlock(c context.Context, id *url.URL) error {
	if d.s.inAbort() {
		return nil
	}
	ids := ustr(id)
	msg := d.s.yield(Op{Kind: opCall, Method: "db.Unlock", Srv: d.host(), ID: ids})
	t := d.s.cur
	d.s.monSeam(t, "db", "Unlock", d.host())
	key := d.host() + "|" + ids
	idx := -1
	for i, h := range t.held {
		if h == key {
			idx = i
		}
	}
	if idx < 0 {
		d.s.violate("C09", "unlock-not-held", callerFn(), fmt.Sprintf("task %s unlocks %s which it does not hold", t.ID, ids))
		// a good-faith application keeps one mutex per id: unlocking it releases whoever holds it
		if other := d.s.locks[key]; other != nil && other != t {
			delete(d.s.locks, key)
			for i, h := range other.held {
				if h == key {
					other.held = append(other.held[:i], other.held[i+1:]...)
					break
				}
			}
			d.s.probe("foreign-lock-released")
		}
	} else {
		t.held = append(t.held[:idx], t.held[idx+1:]...)
		if d.s.locks[key] == t {
			delete(d.s.locks, key)
		}
	}
	if msg.fault != nil {
		d.s.logEv(Event{Srv: d.host(), Kind: "db.Unlock", ID: ids, Fault: true, Res: "err"})
		return d.injErr()
	}
	d.s.logEv(Event{Srv: d.host(), Kind: "db.Unlock", ID: ids})
	return nil
}

func (d *SimDB) items(id string, key string) []string {
	m := d.getJ(id)
	if m == nil {
		return nil
	}
	return idsOf(m[key])
}

func (d *SimDB) InboxContains(c context.Context, inbox, id *url.URL) (bool, error) {
	if f, _ := d.call("InboxContains", ustr(inbox), true); f {
		return false, d.injErr()
	}
	m := d.getJ(ustr(inbox))
	if m == nil {
		d.s.logEv(Event{Srv: d.host(), Kind: "db.InboxContains", ID: ustr(inbox), Res: "missing"})
		return false, errMissing
	}
	res := contains(idsOf(m["orderedItems"]), ustr(id))
	d.s.logEv(Event{Srv: d.host(), Kind: "db.InboxContains", ID: ustr(inbox), Arg: ustr(id), Res: fmt.Sprint(res)})
	return res, nil
}

func (d *SimDB) getPage(method string, iri *url.URL) (vocab.ActivityStreamsOrderedCollectionPage, error) {
	if f, _ := d.call(method, ustr(iri), true); f {
		return nil, d.injErr()
	}
	b, ok := d.store[ustr(iri)]
	if !ok {
		d.s.logEv(Event{Srv: d.host(), Kind: "db." + method, ID: ustr(iri), Res: "missing"})
		return nil, errMissing
	}
	b = d.s.corruptStored(d, "db."+method, ustr(iri), b)
	t, err := decodeType(b)
	if err != nil {
		d.s.logEv(Event{Srv: d.host(), Kind: "db." + method, ID: ustr(iri), Res: "undecodable"})
		return nil, err
	}
	p, ok := t.(vocab.ActivityStreamsOrderedCollectionPage)
	if !ok {
		d.s.logEv(Event{Srv: d.host(), Kind: "db." + method, ID: ustr(iri), Res: "wrongtype"})
		return nil, fmt.Errorf("sim: %s is not an OrderedCollectionPage", ustr(iri))
	}
	d.s.logEv(Event{Srv: d.host(), Kind: "db." + method, ID: ustr(iri)})
	return p, nil
}

func (d *SimDB) setPage(method string, p vocab.ActivityStreamsOrderedCollectionPage) error {
	id := "<nil>"
	if p != nil && p.GetJSONLDId() != nil {
		id = ustr(p.GetJSONLDId().Get())
	}
	if f, _ := d.call(method, id, true); f {
		return d.injErr()
	}
	m, err := encodeType(p)
	if err != nil {
		return err
	}
	d.put(id, m)
	d.Writes++
	d.s.logEv(Event{Srv: d.host(), Kind: "db." + method, ID: id, Arg: idsOf(m["orderedItems"])})
	return nil
}

func (d *SimDB) GetInbox(c context.Context, iri *url.URL) (vocab.ActivityStreamsOrderedCollectionPage, error) {
	return d.getPage("GetInbox", iri)
}
func (d *SimDB) SetInbox(c context.Context, p vocab.ActivityStreamsOrderedCollectionPage) error {
	return d.setPage("SetInbox", p)
}
func (d *SimDB) GetOutbox(c context.Context, iri *url.URL) (vocab.ActivityStreamsOrderedCollectionPage, error) {
	return d.getPage("GetOutbox", iri)
}
func (d *SimDB) SetOutbox(c context.Context, p vocab.ActivityStreamsOrderedCollectionPage) error {
	return d.setPage("SetOutbox", p)
}

func (d *SimDB) owns(id string) bool {
	if hostOf(id) != d.host() {
		return false
	}
	_, ok := d.store[id]
	return ok
}

func (d *SimDB) Owns(c context.Context, id *url.URL) (bool, error) {
	if f, _ := d.call("Owns", ustr(id), true); f {
		return false, d.injErr()
	}
	res := id != nil && d.owns(id.String())
	d.s.logEv(Event{Srv: d.host(), Kind: "db.Owns", ID: ustr(id), Res: fmt.Sprint(res)})
	return res, nil
}

func (d *SimDB) dirLookup(method string, box *url.URL, sel func(a *ActorDir) (string, string)) (*url.URL, error) {
	if f, _ := d.call(method, ustr(box), true); f {
		return nil, d.injErr()
	}
	for _, a := range d.srv.Actors {
		k, v := sel(a)
		if k == ustr(box) {
			d.s.logEv(Event{Srv: d.host(), Kind: "db." + method, ID: ustr(box), Res: v})
			u, _ := url.Parse(v)
			return u, nil
		}
	}
	d.s.logEv(Event{Srv: d.host(), Kind: "db." + method, ID: ustr(box), Res: "missing"})
	return nil, errMissing
}

func (d *SimDB) ActorForOutbox(c context.Context, outboxIRI *url.URL) (*url.URL, error) {
	return d.dirLookup("ActorForOutbox", outboxIRI, func(a *ActorDir) (string, string) { return a.Outbox, a.ID })
}
func (d *SimDB) ActorForInbox(c context.Context, inboxIRI *url.URL) (*url.URL, error) {
	return d.dirLookup("ActorForInbox", inboxIRI, func(a *ActorDir) (string, string) { return a.Inbox, a.ID })
}
func (d *SimDB) OutboxForInbox(c context.Context, inboxIRI *url.URL) (*url.URL, error) {
	return d.dirLookup("OutboxForInbox", inboxIRI, func(a *ActorDir) (string, string) { return a.Inbox, a.Outbox })
}

func (d *SimDB) InboxForActor(c context.Context, actorIRI *url.URL) (*url.URL, error) {
	if f, _ := d.call("InboxForActor", ustr(actorIRI), true); f {
		return nil, d.injErr()
	}
	if v, ok := d.srv.Spec.StoredInbox[ustr(actorIRI)]; ok {
		d.s.logEv(Event{Srv: d.host(), Kind: "db.InboxForActor", ID: ustr(actorIRI), Res: v})
		u, _ := url.Parse(v)
		return u, nil
	}
	d.s.logEv(Event{Srv: d.host(), Kind: "db.InboxForActor", ID: ustr(actorIRI), Res: "nil"})
	return nil, nil
}

func (d *SimDB) Exists(c context.Context, id *url.URL) (bool, error) {
	if f, _ := d.call("Exists", ustr(id), true); f {
		return false, d.injErr()
	}
	_, ok := d.store[ustr(id)]
	d.s.logEv(Event{Srv: d.host(), Kind: "db.Exists", ID: ustr(id), Res: fmt.Sprint(ok)})
	return ok, nil
}

func (d *SimDB) Get(c context.Context, id *url.URL) (vocab.Type, error) {
	if f, _ := d.call("Get", ustr(id), true); f {
		return nil, d.injErr()
	}
	b, ok := d.store[ustr(id)]
	if !ok {
		d.s.logEv(Event{Srv: d.host(), Kind: "db.Get", ID: ustr(id), Res: "missing"})
		if d.srv.Spec.GetMissing == "nil" {
			return nil, nil
		}
		return nil, errMissing
	}
	b = d.s.corruptStored(d, "db.Get", ustr(id), b)
	if cur := d.s.cur; cur != nil && cur.EntryKind == "handler" {
		cur.Result = string(b) // the value the application supplied to this very request
	}
	t, err := decodeType(b)
	if err != nil {
		d.s.logEv(Event{Srv: d.host(), Kind: "db.Get", ID: ustr(id), Res: "undecodable"})
		return nil, err
	}
	d.s.logEv(Event{Srv: d.host(), Kind: "db.Get", ID: ustr(id)})
	return t, nil
}

func typeID(t vocab.Type) string {
	if t == nil {
		return "<nil>"
	}
	if id := t.GetJSONLDId(); id != nil && id.Get() != nil {
		return id.Get().String()
	}
	return "<noid>"
}

func (d *SimDB) write(method string, t vocab.Type) error {
	id := typeID(t)
	if f, _ := d.call(method, id, true); f {
		return d.injErr()
	}
	if t == nil {
		return fmt.Errorf("sim: %s(nil)", method)
	}
	m, err := encodeType(t)
	if err != nil {
		d.s.logEv(Event{Srv: d.host(), Kind: "db." + method, ID: id, Res: "unserialisable"})
		return err
	}
	if id == "<noid>" {
		d.s.logEv(Event{Srv: d.host(), Kind: "db." + method, ID: id, Arg: m, Res: "noid"})
		return fmt.Errorf("sim: %s of a value without id", method)
	}
	d.put(id, m)
	d.Writes++
	d.s.logEv(Event{Srv: d.host(), Kind: "db." + method, ID: id, Arg: m})
	return nil
}

func (d *SimDB) Create(c context.Context, t vocab.Type) error { return d.write("Create", t) }
func (d *SimDB) Update(c context.Context, t vocab.Type) error { return d.write("Update", t) }

func (d *SimDB) Delete(c context.Context, id *url.URL) error {
	if f, _ := d.call("Delete", ustr(id), true); f {
		return d.injErr()
	}
	delete(d.store, ustr(id))
	d.Writes++
	d.s.logEv(Event{Srv: d.host(), Kind: "db.Delete", ID: ustr(id)})
	return nil
}

func (d *SimDB) NewID(c context.Context, t vocab.Type) (*url.URL, error) {
	if f, _ := d.call("NewID", "", false); f {
		return nil, d.injErr()
	}
	task := d.s.cur
	n := task.calls["db.NewID"]
	kind := "x"
	if t != nil {
		kind = strings.ToLower(t.GetTypeName())
	}
	scheme := d.srv.Spec.MintScheme
	if scheme == "" {
		scheme = d.srv.Spec.Scheme
	}
	if scheme == "" {
		scheme = "https"
	}
	id := fmt.Sprintf("%s://%s/%s/%s-%d", scheme, d.host(), kind, strings.ReplaceAll(task.ID, ".", "_"), n)
	d.s.logEv(Event{Srv: d.host(), Kind: "db.NewID", Res: id})
	u, _ := url.Parse(id)
	return u, nil
}

func (d *SimDB) collection(method string, actorIRI *url.URL, sel func(a *ActorDir) string) (vocab.ActivityStreamsCollection, error) {
	if f, _ := d.call(method, ustr(actorIRI), true); f {
		return nil, d.injErr()
	}
	for _, a := range d.srv.Actors {
		if a.ID == ustr(actorIRI) {
			b, ok := d.store[sel(a)]
			if !ok {
				break
			}
			b = d.s.corruptStored(d, "db."+method, sel(a), b)
			t, err := decodeType(b)
			if err != nil {
				d.s.logEv(Event{Srv: d.host(), Kind: "db." + method, ID: ustr(actorIRI), Res: "undecodable"})
				return nil, err
			}
			col, ok := t.(vocab.ActivityStreamsCollection)
			if !ok {
				d.s.logEv(Event{Srv: d.host(), Kind: "db." + method, ID: ustr(actorIRI), Res: "wrongtype"})
				return nil, fmt.Errorf("sim: not a Collection")
			}
			d.s.logEv(Event{Srv: d.host(), Kind: "db." + method, ID: ustr(actorIRI)})
			return col, nil
		}
	}
	d.s.logEv(Event{Srv: d.host(), Kind: "db." + method, ID: ustr(actorIRI), Res: "missing"})
	return nil, errMissing
}

func (d *SimDB) Followers(c context.Context, actorIRI *url.URL) (vocab.ActivityStreamsCollection, error) {
	return d.collection("Followers", actorIRI, func(a *ActorDir) string { return a.Followers })
}
func (d *SimDB) Following(c context.Context, actorIRI *url.URL) (vocab.ActivityStreamsCollection, error) {
	return d.collection("Following", actorIRI, func(a *ActorDir) string { return a.Following })
}
func (d *SimDB) Liked(c context.Context, actorIRI *url.URL) (vocab.ActivityStreamsCollection, error) {
	return d.collection("Liked", actorIRI, func(a *ActorDir) string { return a.Liked })
}

func (d *SimDB) sortedIDs() []string {
	ks := make([]string, 0, len(d.store))
	for k := range d.store {
		ks = append(ks, k)
	}
	sort.Strings(ks)
	return ks
}
