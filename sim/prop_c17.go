package sim

// C17: inbox forwarding happens iff its three conditions hold, once, unchanged.

import (
	"fmt"
	"strings"
)

func genC17(r *Rng, k int, tier string) *RunSpec {
	o := defaultOpt()
	o.ForwardDepth = 1 + r.Intn(4)
	switch r.Intn(6) {
	case 0, 1:
		o.Transport = "queued"
	case 2:
		o.Transport = "httpsig"
	}
	st := newStd(o)
	a := &st.W.Servers[0]
	a.Filter = Pick(r, []string{"all", "all", "none", "first", "odd", "dropfirst-inplace", "skip-anon", "skip-anon"})
	// an owned collection with an entry that has no identity (legal; it just cannot be forwarded to)
	anonCol := "https://" + hostA + "/c/anon"
	a.Docs = append(a.Docs, DocSpec{anonCol, mustJSON(J{"@context": asCtx, "type": "Collection", "id": anonCol, "items": []interface{}{st.Dave, J{"type": "Person", "name": "nobody in particular"}}})})
	ownedNonColl := st.Note2
	a.Docs = append(a.Docs, DocSpec{st.Alice.Followers,
		mustJSON(J{"@context": asCtx, "type": "Collection", "id": st.Alice.Followers, "items": []interface{}{st.Bob.ID, st.Dave, J{"type": "Person", "id": st.Erin, "inbox": st.Erin + "/inbox"}}})})
	foreignColl := "https://" + hostR + "/c/f"
	st.W.Remote = append(st.W.Remote, DocSpec{foreignColl, mustJSON(J{"@context": asCtx, "type": "Collection", "id": foreignColl, "items": []string{st.Erin}})})
	// addressing: mix of owned collections, foreign collections, owned non-collections, actors
	pool := []string{st.Alice.Followers, st.Col1, st.OCol1, foreignColl, ownedNonColl, st.Alice.ID, st.Dave, st.Carol.ID}
	if a.Filter == "skip-anon" || r.Intn(6) == 0 {
		pool = append(pool, anonCol, anonCol)
	}
	addr := func() []interface{} {
		var out []interface{}
		for i, n := 0, r.Intn(3); i < n; i++ {
			id := Pick(r, pool)
			if r.Intn(30) == 0 {
				out = append(out, J{"type": "Person", "name": "somebody without an id"}) // cannot be forwarded as asked; seen all the same
				continue
			}
			if r.Intn(8) == 0 {
				// the sender writes the addressed value out as an object of its own making: what counts is what THIS server
				// stores under that id (its type, its members), not the sender's copy
				mallory := "https://" + hostR + "/u/mallory"
				cp := J{"type": Pick(r, []string{"Collection", "OrderedCollection"}), "id": id}
				cp[itemsKey(cp)] = []string{mallory}
				out = append(out, cp)
				continue
			}
			out = append(out, id)
		}
		return out
	}
	// reply chain
	depth := r.Intn(6) // 0: no chain values at all
	ownedAt := 0
	if depth > 0 && r.Intn(4) > 0 {
		ownedAt = 1 + r.Intn(depth)
	}
	if st.W.Fate == nil {
		st.W.Fate = map[string]string{}
	}
	var build func(level int) interface{}
	build = func(level int) interface{} {
		if level > depth {
			return nil
		}
		if level == ownedAt {
			switch r.Intn(6) {
			case 5:
				// an owned value that is not a collection and may well be addressed too (a local actor who is mentioned)
				return Pick(r, []string{st.Alice.ID, st.Carol.ID, ownedNonColl})
			case 0, 1:
				return st.Note1
			case 2:
				return J{"type": "Mention", "href": st.Alice.ID, "name": "@alice"} // identified by its href
			case 3:
				return J{"type": "Link", "href": st.Note1}
			}
			return J{"type": "Note", "id": st.Note1}
		}
		id := fmt.Sprintf("https://%s/n/ch%d", hostR, level)
		v := J{"type": Pick(r, []string{"Note", "Article"}), "id": id, "content": fmt.Sprint("lvl", level)}
		if next := build(level + 1); next != nil {
			v[Pick(r, []string{"inReplyTo", "inReplyTo", "tag"})] = next
		}
		if r.Intn(5) < 2 {
			d := cloneJ(v)
			d["@context"] = asCtx
			st.W.Remote = append(st.W.Remote, DocSpec{id, mustJSON(d)})
			if r.Intn(4) == 0 {
				// referred to by an IRI that points into the document (a fragment); served all the same
				st.W.Remote = append(st.W.Remote, DocSpec{id + "#c7", mustJSON(d)})
				id += "#c7"
			}
			if r.Intn(6) == 0 {
				st.W.Fate[id] = Pick(r, []string{"unreachable", "unknowntype", "nocontext", "notype"}) // (bytes that are no JSON at all are C11's matter, see Assumptions)
			}
			return id
		}
		return v
	}
	typ := Pick(r, []string{"Create", "Announce", "Like", "Listen", "Add"})
	f := J{}
	for _, p := range []string{"to", "cc", "audience"} {
		if v := addr(); len(v) > 0 {
			f[p] = v
		}
	}
	if r.Intn(4) == 0 {
		f[Pick(r, []string{"bto", "bcc"})] = Pick(r, []string{st.Dave, st.Erin}) // legal on an inbound activity; must be forwarded unchanged
	}
	top := build(1)
	// DAG-shaped reply graph: a second, shorter branch that joins the first chain at one of its documents
	var second interface{}
	if depth >= 2 && r.Intn(3) == 0 {
		var shared []string
		for _, d := range st.W.Remote {
			if strings.Contains(d.ID, "/n/ch") {
				shared = append(shared, d.ID)
			}
		}
		if len(shared) > 0 {
			join := Pick(r, shared)
			second = J{"type": "Note", "id": fmt.Sprintf("https://%s/n/side", hostR), "inReplyTo": join}
			if r.Bool() {
				second = join
			}
		}
	}
	withSecond := func(v interface{}) interface{} {
		if second == nil || v == nil {
			return v
		}
		if r.Bool() {
			return []interface{}{v, second}
		}
		return []interface{}{second, v}
	}
	switch typ {
	case "Create":
		n := J{"type": "Note", "id": st.RNote + "/c17", "attributedTo": st.Dave, "content": "reply"}
		if top != nil {
			n["inReplyTo"] = withSecond(top)
		}
		if r.Intn(4) == 0 {
			// beside the reply chain, a tag whose document cannot be interpreted (or fetched): that branch is a dead end, the
			// search goes on along the others
			hid := "https://" + hostR + "/tags/c17"
			st.W.Remote = append(st.W.Remote, DocSpec{hid, mustJSON(J{"@context": asCtx, "type": "Note", "id": hid, "name": "#c17"})})
			st.W.Fate[hid] = Pick(r, []string{"nocontext", "notype", "unreachable", "unknowntype"})
			n["tag"] = hid
		}
		f["object"] = n
		if r.Intn(3) == 0 {
			// the Create names its object by reference; what is forwarded is still the activity as it was received
			d := cloneJ(n)
			d["@context"] = asCtx
			st.W.Remote = append(st.W.Remote, DocSpec{n["id"].(string), mustJSON(d)})
			f["object"] = n["id"]
		}
	case "Add":
		f["object"] = st.RNote
		if top != nil {
			f["target"] = top
		} else {
			f["target"] = foreignColl
		}
	default:
		if top != nil {
			f["object"] = withSecond(top)
		} else {
			f["object"] = st.RNote
		}
	}
	body := st.act(typ, f)
	// each activity delivered 1..3 times to one or two local inboxes, sequentially or concurrently
	n := 1 + r.Intn(3)
	var reqs []ReqSpec
	conc := r.Bool()
	for i := 0; i < n; i++ {
		box := st.Alice
		if r.Intn(3) == 0 {
			box = st.Carol
		}
		rq := inboxReq(fmt.Sprintf("r%d", i), box, hostA, body)
		if !conc && i > 0 {
			rq.After = []string{fmt.Sprintf("r%d", i-1)}
		}
		reqs = append(reqs, rq)
	}
	sp := mk("C17", st, reqs...)
	if conc {
		sp.Sched = SchedSpec{Strategy: Pick(r, []string{"random", "sticky", "pct"}), Seed: r.U64(), Depth: 2, Horizon: 120}
	}
	sp.Gen = fmt.Sprintf("c17/%d/%s", k, typ)
	sp.MapSeed = r.U64() | 1
	return sp
}

func isCollType(t string) bool {
	switch t {
	case "Collection", "OrderedCollection", "CollectionPage", "OrderedCollectionPage":
		return true
	}
	return false
}

// reachOwned: the third forwarding condition, per the statement.
func reachOwned(res *Result, host string, v J, k, limit int) bool {
	if k > limit {
		return false
	}
	before := res.Before[host]
	owned := func(id string) bool { _, ok := before[id]; return ok && hostOf(id) == host }
	var vals []interface{}
	for _, p := range []string{"inReplyTo", "tag", "object", "target"} {
		vals = append(vals, aslist(v[p])...)
	}
	for _, x := range vals {
		if id := idOf(x); id != "" && owned(id) {
			return true
		}
	}
	for _, x := range vals {
		var d J
		if xm, ok := x.(map[string]interface{}); ok {
			d = xm
		} else if id, ok := x.(string); ok {
			dd, fate := docFor(res, id)
			if fate != "ok" {
				continue
			}
			d = dd
		}
		if d != nil && reachOwned(res, host, d, k+1, limit) {
			return true
		}
	}
	return false
}

func oracleC17(c *DriveCtx, res *Result) {
	s := res.Sim
	if res.Verdict != "" {
		return
	}
	faulty := len(res.Spec.Faults) > 0
	// group the deliveries by (server, activity id)
	type grp struct {
		tasks []*Task
		body  J
	}
	groups := map[string]*grp{}
	for _, t := range res.Tasks {
		if t.EntryKind != "postInbox" || t.Parent != nil || !t.done || t.Panic != nil {
			continue
		}
		body, err := parseJ(t.Req.Body)
		if err != nil {
			continue
		}
		key := t.Srv + "|" + idOf(body)
		if groups[key] == nil {
			groups[key] = &grp{body: body}
		}
		groups[key].tasks = append(groups[key].tasks, t)
	}
	for _, key := range sortedKeys(groups) {
		g := groups[key]
		host := strings.SplitN(key, "|", 2)[0]
		actID := idOf(g.body)
		srv := s.World.Servers[host]
		before := res.Before[host]
		inTask := map[string]bool{}
		reached := 0
		for _, t := range g.tasks {
			inTask[t.ID] = true
			if t.Err == nil && t.Rec.Status == 200 {
				reached++
			}
		}
		// an addressee that has no id makes forwarding impossible as asked (the delivery that finds out fails, a later one sees the
		// activity as known); inside the statement's "in every case" the activity is recorded as seen exactly once all the same
		anon := false
		for _, p := range []string{"to", "cc", "audience"} {
			for _, e := range aslist(g.body[p]) {
				if idOf(e) == "" {
					anon = true
				}
			}
		}
		if anon {
			s.probe("c17-anonymous-addressee")
			if len(res.Spec.Faults) == 0 && before[actID] == "" {
				n, blocked, ranPostInbox := 0, false, false
				for _, e := range s.Log {
					if !inTask[e.Task] {
						continue
					}
					if e.Kind == "db.Create" && e.ID == actID && !e.Fault {
						n++
					}
					if e.Kind == "app.Blocked" && e.Res != "false" {
						blocked = true
					}
					if e.Kind == "db.SetInbox" {
						ranPostInbox = true
					}
				}
				if ranPostInbox && !blocked {
					// reference: the same run without the id-less addressees tells whether these deliveries get as far as
					// inbox forwarding at all (the side effects before it may refuse the activity for reasons of their own)
					ref := res.Spec.Clone()
					ref.Gen += " [without id-less addressees]"
					for i := range ref.Requests {
						if b, err := parseJ(ref.Requests[i].Body); err == nil && idOf(b) == actID {
							for _, p := range []string{"to", "cc", "audience"} {
								var keep []interface{}
								for _, e := range aslist(b[p]) {
									if idOf(e) != "" {
										keep = append(keep, e)
									}
								}
								if _, had := b[p]; had {
									if keep == nil {
										delete(b, p)
									} else {
										b[p] = keep
									}
								}
							}
							ref.Requests[i].Body = mustJSON(b)
						}
					}
					rr := Execute(c.T, ref)
					nRef := 0
					if rr.Harness == "" && rr.Verdict == "" {
						for _, e := range rr.Sim.Log {
							if inTask[e.Task] && e.Kind == "db.Create" && e.ID == actID && !e.Fault {
								nRef++
							}
						}
						if n != nRef {
							s.violate("C17", "seen-record-count", typeOf(g.body), fmt.Sprintf("%s (an addressee without id) was delivered %d time(s) and recorded as seen %d times; without that addressee it is recorded %d time(s)", actID, len(g.tasks), n, nRef))
						}
					}
				}
			}
			continue
		}
		if reached == 0 {
			continue
		}
		// condition 2: owned collections among to/cc/audience
		var C []string
		for _, p := range []string{"to", "cc", "audience"} {
			for _, id := range idsOf(g.body[p]) {
				if raw, ok := before[id]; ok && hostOf(id) == host {
					if isCollType(typeOf(mustParseJ([]byte(raw)))) {
						C = append(C, id)
					}
				}
			}
		}
		C = sortedSet(C)
		first := before[actID] == ""
		cond3 := reachOwned(res, host, g.body, 1, srv.Spec.ForwardDepth)
		should := first && len(C) > 0 && cond3
		// observations
		var fwd []WireMsg
		for _, wm := range s.World.Wire {
			if inTask[wm.Task] && srv.actorByInbox(wm.Box) != nil {
				fwd = append(fwd, wm)
			}
		}
		seen := 0
		var filt []Event
		for _, e := range s.Log {
			if !inTask[e.Task] {
				continue
			}
			if e.Kind == "db.Create" && e.ID == actID && !e.Fault {
				seen++
			}
			if e.Kind == "app.FilterForwarding" {
				filt = append(filt, e)
			}
		}
		site := typeOf(g.body)
		wantSeen := 1
		if !first {
			wantSeen = 0
		}
		if typeOf(g.body) == "Create" && false {
			wantSeen = 1
		}
		if faulty {
			// fault class: the delivery that recorded the activity as seen owes the forwarding if it reports success; a delivery
			// that reports success although nobody recorded the activity breaks "recorded as seen in every case"
			var seenBy *Task
			for _, e := range s.Log {
				if inTask[e.Task] && e.Kind == "db.Create" && e.ID == actID && !e.Fault && seenBy == nil {
					seenBy = s.byID[e.Task]
				}
			}
			ok200 := func(t *Task) bool { return t != nil && t.Err == nil && t.Rec != nil && t.Rec.Status == 200 }
			if first && seenBy == nil {
				s.violate("C17", "accepted-but-never-recorded", site, fmt.Sprintf("%s was answered 200 (%d of %d deliveries) with a seam call made to fail (%v), yet it was never recorded as seen", actID, reached, len(g.tasks), res.Spec.Faults))
			} else if should && len(fwd) == 0 && ok200(seenBy) {
				s.violate("C17", "not-forwarded-under-swallowed-fault", site, fmt.Sprintf("%s meets the three conditions, a seam call was made to fail (%v), the delivery that recorded it (%s) answered 200, yet nothing was forwarded", actID, res.Spec.Faults, seenBy.ID))
			}
			if len(fwd) > 1 {
				s.violate("C17", "forwarded-more-than-once", site, fmt.Sprintf("%s was forwarded %d times", actID, len(fwd)))
			}
			continue
		}
		if seen != wantSeen {
			s.violate("C17", "seen-record-count", site, fmt.Sprintf("%s delivered %d time(s): recorded as seen %d times, expected %d", actID, len(g.tasks), seen, wantSeen))
		}
		if len(fwd) > 1 {
			s.violate("C17", "forwarded-more-than-once", site, fmt.Sprintf("%s was forwarded %d times", actID, len(fwd)))
			continue
		}
		if should {
			s.probe("c17-should-forward")
		} else if first && len(C) > 0 {
			s.probe("c17-chain-not-owned-within-limit")
		} else if !first {
			s.probe("c17-seen-before")
		}
		if len(filt) > 0 {
			in, _ := normalise(filt[0].Arg).(map[string]interface{})
			var got []string
			for _, x := range aslist(in["in"]) {
				got = append(got, fmt.Sprint(x))
			}
			if !should {
				s.probe("c17-filter-consulted-without-conditions") // not forbidden by the statement as long as nothing is forwarded
			} else if !sameSet(got, C) {
				s.violate("C17", "filter-input", site, fmt.Sprintf("FilterForwarding was given %v; the owned collections addressed are %v", got, C))
			}
		}
		if !should {
			if len(fwd) > 0 {
				s.violate("C17", "forwarded-without-conditions", site, fmt.Sprintf("%s was forwarded although first=%v, owned collections addressed=%v, owned value reachable within %d=%v", actID, first, C, srv.Spec.ForwardDepth, cond3))
			}
			continue
		}
		if len(filt) == 0 {
			s.violate("C17", "not-forwarded", site, fmt.Sprintf("%s meets the three conditions (collections %v, limit %d) but the filter was never consulted / nothing forwarded", actID, C, srv.Spec.ForwardDepth))
			continue
		}
		out, _ := normalise(filt[0].Arg).(map[string]interface{})
		var members []string
		anon = false
		for _, cid := range aslist(out["out"]) {
			members = append(members, collIDs(before[fmt.Sprint(cid)], "")...)
			for _, e := range collEntries(before[fmt.Sprint(cid)]) {
				if idOf(e) == "" {
					anon = true
				}
			}
		}
		if anon {
			s.probe("c17-selected-collection-with-anonymous-member") // cannot be forwarded to as asked: an error is the answer
			if len(fwd) > 0 {
				if pm, err := parseJ([]byte(fwd[0].Payload)); err != nil || !sameDoc(pm, g.body) {
					s.violate("C17", "forward-payload-changed", site, "forwarded payload differs from the received activity")
				}
			}
			continue
		}
		if len(fwd) == 0 {
			s.violate("C17", "not-forwarded", site, fmt.Sprintf("%s meets the three conditions; filter returned %v; nothing was handed to the transport", actID, out["out"]))
			continue
		}
		// recipients: the member ids, or exactly their inboxes
		var inboxes []string
		for _, mID := range members {
			if d, fate := docFor(res, mID); fate == "ok" {
				inboxes = append(inboxes, idOf(d["inbox"]))
			}
		}
		if !sameSet(fwd[0].Recipients, members) && !sameSet(fwd[0].Recipients, inboxes) {
			s.violate("C17", "forward-recipients", site, fmt.Sprintf("forwarded to %v; members of the filtered collections %v are %v", fwd[0].Recipients, out["out"], sortedSet(members)))
		}
		pm, err := parseJ([]byte(fwd[0].Payload))
		if err != nil || !sameDoc(pm, g.body) {
			s.violate("C17", "forward-payload-changed", site, fmt.Sprintf("forwarded payload %s differs from the received activity %s", trunc(canonJSON(simplify(pm)), 300), trunc(canonJSON(simplify(g.body)), 300)))
		}
	}
}

func init() {
	register(&PropDef{
		ID: "C17", Level: "exploration", Engine: "fedsim",
		Rule: "case = one activity (Create/Announce/Like/Listen/Add) whose to/cc/audience mix owned collections, foreign collections, owned non-collections and actors, with a reply chain of depth 0-5 through embedded values and dereferenced IRIs (inReplyTo/tag/object/target) owned at a random level or nowhere, unreachable / unknown-type links, forwarding depth limit 1-4, filter all/none/first/odd, (also DAG-shaped: two branches joining), an application filter written with the in-place idiom, delivered 1-3 times to one or two local inboxes sequentially or concurrently under a seeded schedule; one case in eight is swept with every single seam-call fault, one in eight crashes the server at a random step and lets the peer redeliver (forwarded at most once across the crash); oracle = model of the three conditions on the pre-run snapshot vs FilterForwarding input, forwarding BatchDeliver (count, recipients, payload) and the number of 'seen' records. distinct = distinct (scenario, event sequence).",
		QuickCases: 2400, QuickBudgetS: 150, ThoroughBudgetS: 600,
		Drive: func(c *DriveCtx, r *Rng, k int) {
			if k%8 == 4 {
				// crash class: the server dies at a random step, then the peer redelivers; forwarding at most once overall
				seed := r.s
				clean := c.Exec(genC17(NewRng(seed), k, c.Tier))
				for i := 0; i < 4 && !c.Expired(); i++ {
					cr := r.Fork(fmt.Sprintf("crash/%d", i))
					run := genC17(NewRng(seed), k, c.Tier)
					n0 := len(run.Requests)
					for j := 0; j < n0; j++ {
						rq := run.Requests[j]
						rq.ID = fmt.Sprintf("x%d", j)
						rq.AfterCrash, rq.After = true, nil
						run.Requests = append(run.Requests, rq)
					}
					run.Faults = []FaultSpec{{Site: fmt.Sprintf("step|%d", 1+cr.Intn(clean.Steps+3)), Kind: "crash", Arg: hostA}}
					run.Gen += " crash@" + run.Faults[0].Site
					c.Exec(run)
				}
				return
			}
			if k%8 == 0 {
				seed := r.s
				c.singleFaultSweep(func() *RunSpec { return genC17(NewRng(seed), k, c.Tier) }, faultKindFor)
				return
			}
			c.Exec(genC17(r, k, c.Tier))
		},
		Oracle: oracleC17,
		Assumptions: []string{"'to the inboxes of the members': the recipients handed to the transport may be the member ids (what the code does, leaving inbox resolution to the application transport) or exactly their inboxes",
			"a non-JSON link in the chain is outside the statement (left to C11); chain faults are unreachable and unknown-type documents, which cut the chain",
			"depth: level 1 = the activity's own inReplyTo/object/target/tag values; level k is examined iff k <= limit"},
	})
}
