package sim

import "encoding/json"

// mutateDoc applies a structure-aware corruption named by arg (see gen_c11.go).
func mutateDoc(b []byte, arg string) []byte {
	return applyMutation(b, arg)
}

var applyMutation = func(b []byte, arg string) []byte { return b }

var _ = json.Marshal
