package sim

// C07 (nothing before authentication / authorization / protocol checks) and
// C10 (each outcome reported exactly once with the documented status).

import (
	"fmt"
	"strings"
)

var (
	hdrAP = []string{
		"application/activity+json",
		`application/ld+json; profile="https://www.w3.org/ns/activitystreams"`,
		`application/ld+json;profile="https://www.w3.org/ns/activitystreams"`,
		`application/ld+json ; profile=https://www.w3.org/ns/activitystreams`,
		`application/ld+json; profile=https://www.w3.org/ns/activitystreams`,
		"application/activity+json; charset=utf-8",
		"text/html, application/activity+json;q=0.9",
	}
	hdrNot = []string{"", "application/json", "text/html", "application/ld+json", "application/x-www-form-urlencoded", "*/*",
		`application/ld+json; profile="https://www.w3.org/ns/activitystreams-restricted"`,
		`application/ld+json; profile="https://x.example/resolve?base=https://www.w3.org/ns/activitystreams"`,
		// not listed: the UNQUOTED spelling profile=https://www.w3.org/ns/activitystreams-restricted. The library
		// documents its matcher as substring containment ("we don't try to build a comprehensive parser"), the
		// unquoted spelling is itself outside the HTTP token grammar, and the property does not say which way a
		// malformed parameter falls; see DESIGN §7 (observations).
	}
	hdrAmb = []string{"APPLICATION/ACTIVITY+JSON", `application/ld+json; charset=utf-8; profile="https://www.w3.org/ns/activitystreams"`, "application/activity+jsonx"}
)

func hdrClass(h string) string {
	for _, x := range hdrAP {
		if x == h {
			return "ap"
		}
	}
	for _, x := range hdrNot {
		if x == h {
			return "not"
		}
	}
	return "amb"
}

type gateExpect struct {
	// per request id
	Req map[string]gateReq `json:"req"`
}

type gateReq struct {
	Hdr     string `json:"hdr"`      // ap | not | amb
	Method  string `json:"method"`   // HTTP method used
	Body    string `json:"body"`     // valid | bare | unknown | nonjson | idabsent | idnull | idempty | idnumber | idobject | idrelative | noobject | emptyobject | notarget
	Blocked string `json:"blocked"`  // no | yes | err
	Type    string `json:"type"`     // activity type of a valid body
}

func genGate(r *Rng, prop string, k int) *RunSpec {
	o := defaultOpt()
	switch r.Intn(4) {
	case 0:
		o.Social, o.Federating = true, false
	case 1:
		o.Social, o.Federating = false, true
	}
	o.OnFollow = r.Intn(3)
	if r.Intn(5) == 0 {
		// served over plain http (say, behind a TLS-terminating proxy) while the ids it mints are https
		o.Scheme, o.MintScheme = "http", "https"
	}
	o.QueryActor = r.Intn(4) == 0
	st := newStd(o)
	// a tombstone and a value with hidden recipients for the handler
	tomb := hostPrefix(st) + "/n/tomb"
	tombDoc := J{"@context": asCtx, "type": "Tombstone", "id": tomb, "formerType": "Note", "deleted": "2020-01-01T00:00:00Z"}
	switch r.Intn(4) {
	case 0:
		tombDoc["type"] = []string{"Tombstone", "Note"} // several types: still a Tombstone
	case 1:
		if ad, ok := aliasBody(mustJSON(tombDoc), "as"); ok { // stored in the vocabulary-prefixed spelling: still a Tombstone
			tombDoc = mustParseJ(ad)
		}
	}
	st.W.Servers[0].Docs = append(st.W.Servers[0].Docs, DocSpec{tomb, mustJSON(tombDoc)})
	if r.Intn(5) == 0 {
		// the application also handles types the library has no default behaviour for (parents of handled types among them)
		cbs := map[string]string{}
		for _, t := range []string{"Ignore", "Offer", "Activity"} {
			if r.Bool() {
				cbs[t] = "other"
			}
		}
		st.W.Servers[0].FedCb, st.W.Servers[0].SocCb = cbs, cbs
	}
	ex := gateExpect{Req: map[string]gateReq{}}
	n := 1 + r.Intn(3)
	var reqs []ReqSpec
	for i := 0; i < n; i++ {
		id := fmt.Sprintf("r%d", i)
		kind := Pick(r, []string{"postInbox", "postOutbox", "getInbox", "getOutbox", "handler"})
		isPost := strings.HasPrefix(kind, "post")
		ge := gateReq{Blocked: "no"}
		rq := ReqSpec{ID: id, Server: hostA, Kind: kind, Actor: Pick(r, []string{"alice", "carol"})}
		if o.QueryActor && r.Bool() {
			rq.Actor = "quinn"
		}
		// method
		rightMethod := "GET"
		if isPost {
			rightMethod = "POST"
		}
		if r.Intn(4) == 0 {
			rq.Method = Pick(r, []string{"GET", "POST", "PUT", "HEAD", "DELETE"})
		} else {
			rq.Method = rightMethod
		}
		ge.Method = rq.Method
		// header
		var h string
		switch r.Intn(6) {
		case 0:
			h = Pick(r, hdrNot)
		case 1:
			h = Pick(r, hdrAmb)
		default:
			h = Pick(r, hdrAP)
		}
		ge.Hdr = hdrClass(h)
		if isPost {
			rq.ContentType = strp(h)
		} else {
			rq.Accept = strp(h)
		}
		// authentication outcome
		rq.Auth = Pick(r, []string{"ok", "ok", "ok", "ok", "deny", "err", "errtrue"})
		// the header that does not count for this kind of request may say anything
		if r.Intn(4) == 0 {
			other := Pick(r, append(append([]string{}, hdrAP...), hdrNot...))
			if isPost {
				rq.Accept = strp(other)
			} else {
				rq.ContentType = strp(other)
			}
		}
		// body
		if isPost {
			gateBody(r, st, kind, &rq, &ge)
		}
		if kind == "handler" {
			rq.Path = pathOf(Pick(r, []string{st.Note1, st.Note2, tomb, tomb, hostPrefix(st) + "/n/none", st.Col1}))
			if r.Intn(3) == 0 {
				// a second look at what an earlier request of this run asked for, after that one has been answered
				for j := len(reqs) - 1; j >= 0; j-- {
					if reqs[j].Kind == "handler" {
						rq.Path, rq.After = reqs[j].Path, []string{reqs[j].ID}
						break
					}
				}
			}
		}
		if kind == "postInbox" && len(reqs) > 0 && r.Intn(3) == 0 {
			// a peer fans one activity out to several inboxes of this server: same body, same id, its own checks per request
			for j := len(reqs) - 1; j >= 0; j-- {
				if reqs[j].Kind == "postInbox" {
					pg := ex.Req[reqs[j].ID]
					rq.Body, rq.RawBody = reqs[j].Body, reqs[j].RawBody
					ge.Body, ge.Type = pg.Body, pg.Type
					if r.Bool() {
						// ... in the very same way
						rq.Method, rq.ContentType, rq.Accept, rq.Auth = reqs[j].Method, reqs[j].ContentType, reqs[j].Accept, reqs[j].Auth
						ge.Method, ge.Hdr = pg.Method, pg.Hdr
					}
					break
				}
			}
		}
		if (kind == "getInbox" || kind == "getOutbox") && len(reqs) > 0 && r.Intn(3) == 0 {
			// the same page asked for again, after an earlier request of this run was answered - with another authentication outcome
			for j := len(reqs) - 1; j >= 0; j-- {
				if reqs[j].Kind == kind {
					rq.Actor, rq.After = reqs[j].Actor, []string{reqs[j].ID}
					rq.Method, rq.Accept, rq.ContentType = reqs[j].Method, reqs[j].Accept, reqs[j].ContentType
					ge.Method, ge.Hdr = ex.Req[reqs[j].ID].Method, ex.Req[reqs[j].ID].Hdr
					rq.Auth = Pick(r, []string{"err", "deny", "errtrue", "ok"})
					break
				}
			}
		}
		// a request whose context is already done when it arrives (the client went away): classification and checks as ever
		if r.Intn(12) == 0 {
			rq.CtxDone = Pick(r, []string{"canceled", "deadline"})
		}
		// block outcome (inbox only): through the blocked list or a fault on the Blocked call
		if kind == "postInbox" {
			switch r.Intn(6) {
			case 0:
				ge.Blocked = "yes"
			case 1:
				ge.Blocked = "err"
			}
		}
		ex.Req[id] = ge
		reqs = append(reqs, rq)
	}
	sp := mk(prop, st, reqs...)
	for id, ge := range ex.Req {
		switch ge.Blocked {
		case "yes":
			sp.Faults = append(sp.Faults, FaultSpec{Site: id + "|app.Blocked|1", Kind: "blocked"})
		case "err":
			sp.Faults = append(sp.Faults, FaultSpec{Site: id + "|app.Blocked|1", Kind: "block_err"})
		}
	}
	sortFaults(sp.Faults)
	sp.Sched = SchedSpec{Strategy: Pick(r, []string{"fifo", "random", "sticky"}), Seed: r.U64()}
	sp.Gen = fmt.Sprintf("gate/%s/%d", prop, k)
	sp.MapSeed = r.U64() | 1
	sp.Expect = mustJSON(ex)
	return sp
}

func hostPrefix(st *Std) string { return st.Note1[:len(st.Note1)-len("/n/1")] }

func sortFaults(f []FaultSpec) {
	for i := 1; i < len(f); i++ {
		for j := i; j > 0 && f[j].Site < f[j-1].Site; j-- {
			f[j], f[j-1] = f[j-1], f[j]
		}
	}
}

func gateBody(r *Rng, st *Std, kind string, rq *ReqSpec, ge *gateReq) {
	var valid []J
	if kind == "postInbox" {
		valid = []J{
			st.act("Create", J{"object": J{"type": "Note", "id": st.RNote, "attributedTo": st.Dave, "content": "x"}, "to": st.Alice.ID}),
			st.act("Update", J{"object": J{"type": "Note", "id": st.RNote, "content": "y"}}),
			st.act("Delete", J{"object": st.RNote}),
			st.act("Follow", J{"object": st.Alice.ID}),
			st.act("Accept", J{"object": J{"type": "Follow", "id": st.Follow1, "actor": st.Alice.ID, "object": st.Dave}}),
			st.act("Reject", J{"object": J{"type": "Follow", "id": st.Follow1, "actor": st.Alice.ID, "object": st.Dave}}),
			st.act("Add", J{"object": st.RNote, "target": st.Col1}),
			st.act("Remove", J{"object": st.Dave, "target": st.Col1}),
			st.act("Like", J{"object": st.Note1}),
			st.act("Announce", J{"object": st.Note1}),
			st.act("Undo", J{"object": st.RLike}),
			st.act("Block", J{"object": st.Alice.ID}),
			st.act("Listen", J{"object": st.RNote}),
			st.act("Create", J{"object": []string{"https://" + hostR + "/n/gone1", "https://" + hostR + "/n/gone2"}, "to": st.Alice.ID}), // by reference; the documents are unreachable
			st.act("Add", J{"object": st.RNote, "target": st.Note2}),  // object and target are there; the target is owned but no collection
			st.act("Remove", J{"object": st.Dave, "target": st.Note1}),
		}
	} else {
		a := st.Alice.ID
		valid = []J{
			{"@context": asCtx, "type": "Create", "actor": a, "to": st.Dave, "object": J{"type": "Note", "content": "x"}},
			{"@context": asCtx, "type": "Update", "actor": a, "object": J{"type": "Note", "id": st.Note1, "content": "e"}},
			{"@context": asCtx, "type": "Delete", "actor": a, "object": st.Note2},
			{"@context": asCtx, "type": "Follow", "actor": a, "object": st.Dave, "to": st.Dave},
			{"@context": asCtx, "type": "Add", "actor": a, "object": st.Note1, "target": st.Col1},
			{"@context": asCtx, "type": "Remove", "actor": a, "object": st.Dave, "target": st.Col1},
			{"@context": asCtx, "type": "Like", "actor": a, "object": st.RNote, "to": st.Dave},
			{"@context": asCtx, "type": "Undo", "actor": st.Dave, "object": st.RLike},
			{"@context": asCtx, "type": "Block", "actor": a, "object": st.Dave},
			{"@context": asCtx, "type": "Listen", "actor": a, "object": st.RNote, "to": st.Dave},
			{"@context": asCtx, "type": "Add", "actor": a, "object": st.Note1, "target": st.Note2},
			{"@context": asCtx, "type": "Remove", "actor": a, "object": st.Dave, "target": st.Note2},
		}
	}
	body := cloneJ(Pick(r, valid))
	variant := r.Intn(14)
	if len(st.W.Servers[0].FedCb) > 0 && r.Bool() {
		// with callbacks for parent types configured, look at the types that extend them: their defaults must be untouched
		for _, v := range valid {
			if t := typeOf(v); t == "Block" || (t == "Follow" && r.Bool()) {
				body = cloneJ(v)
			}
		}
		variant = Pick(r, []int{6, 7, 13})
	}
	if kind == "postInbox" && r.Intn(8) == 0 {
		// a peer hands one of this server's own activities back (a forwarded copy): the id is on our host
		body["id"] = hostPrefix(st) + "/act/own" + fmt.Sprint(r.Intn(3))
	}
	ge.Type = typeOf(body)
	ge.Body = "valid"
	switch variant {
	case 0:
		ge.Body = "bare"
		body = J{"@context": asCtx, "type": "Note", "content": "bare", "to": st.Dave}
		if kind == "postInbox" {
			body["id"] = st.RNote
		}
	case 1:
		ge.Body = "unknown"
		body["type"] = "Frobnicate"
	case 2:
		ge.Body = "nonjson"
		rq.RawBody = strp(Pick(r, []string{"<html>", "", "[1,2]", "{\"type\":", "null"}))
		return
	case 3:
		if kind == "postInbox" {
			ge.Body = "idabsent"
			delete(body, "id")
		}
	case 4:
		if kind == "postInbox" {
			ge.Body = "idnull"
			body["id"] = nil
		}
	case 5:
		if kind == "postInbox" {
			v := Pick(r, []string{"idempty", "idnumber", "idobject", "idrelative", "idurn"})
			ge.Body = v
			switch v {
			case "idurn":
				// an absolute IRI without an authority is an absolute IRI
				ge.Body = "valid"
				body["id"] = Pick(r, []string{"urn:uuid:6a1c4a52-7f3d-4c1e-9d55-0c8a7e2b9f10", "tag:r.example,2019:act/77", "did:example:123456789abcdefghi#act"})
			case "idempty":
				body["id"] = ""
			case "idnumber":
				body["id"] = 5
			case "idobject":
				body["id"] = J{"x": 1}
			case "idrelative":
				body["id"] = "/act/relative"
			}
		}
	case 6:
		if needsObject(ge.Type, kind) {
			ge.Body = "noobject"
			delete(body, "object")
		}
	case 7:
		if needsObject(ge.Type, kind) {
			ge.Body = "emptyobject"
			body["object"] = []interface{}{}
		}
	case 9:
		if kind == "postInbox" {
			ge.Body = "actorodd"
			body["actor"] = Pick(r, []interface{}{[]interface{}{}, J{"type": "Person", "name": "anonymous"}, []interface{}{J{"type": "Person"}, J{"type": "Service", "name": "x"}}})
		}
	case 8:
		if ge.Type == "Add" || ge.Type == "Remove" {
			ge.Body = "notarget"
			if r.Bool() {
				delete(body, "target")
			} else {
				body["target"] = []interface{}{}
			}
		}
	}
	rq.Body = mustJSON(body)
}

// needsObject: activity types whose default callback demands an object.
func needsObject(typ, kind string) bool {
	switch typ {
	case "Create", "Update", "Delete", "Follow", "Add", "Remove", "Like", "Undo", "Block":
		return true
	}
	return false
}

func protoEnabled(srv *Server, kind string) bool {
	switch kind {
	case "postInbox":
		return srv.Spec.Federating
	case "postOutbox":
		return srv.Spec.Social
	}
	return true
}

// appEvents counts application calls made on behalf of a task.
func appEvents(res *Result, id string) int {
	n := 0
	for _, e := range res.Sim.Log {
		if e.Task == id && (strings.HasPrefix(e.Kind, "app.") || strings.HasPrefix(e.Kind, "db.") || strings.HasPrefix(e.Kind, "tp.")) {
			n++
		}
	}
	return n
}

// oracleDefaultCbErr: when the application's default callback returns an error - whatever error value - the request ends
// handled with that error and nothing written by the library (the middle one of the three end states).
func oracleDefaultCbErr(res *Result) {
	s := res.Sim
	for _, e := range s.Log {
		if !e.Fault || !strings.HasPrefix(e.Kind, "app.cb.") || !strings.Contains(e.Kind, ".default.") {
			continue
		}
		t := s.byID[e.Task]
		if t == nil || t.Parent != nil || t.Req == nil || !t.done || t.Panic != nil || t.EntryKind == "send" {
			continue
		}
		if t.Err == nil || t.Rec.Wrote() {
			s.violate("C10", "callback-error-not-reported", t.EntryKind, fmt.Sprintf("the application's default callback returned an error for %s; the request ended with err=%v and library status %d", e.ID, t.Err, t.Rec.Status))
		}
	}
}

func oracleGate(c *DriveCtx, res *Result) {
	oracleCustom(res)
	oracleDefaultCbErr(res)
	if res.Spec.Expect == nil {
		return
	}
	var ex gateExpect
	mustUnmarshal(res.Spec.Expect, &ex)
	s := res.Sim
	// the same activity delivered more than once to one inbox: whichever delivery comes second is recognised as a duplicate and
	// not processed again (C08), so it cannot be told that the activity lacked something - 200 is its legal answer
	delivered := map[string]int{}
	dupKey := func(t *Task) string {
		if t.Req == nil || t.Req.Kind != "postInbox" || t.Req.Body == nil {
			return ""
		}
		b, err := parseJ(t.Req.Body)
		if err != nil || idOf(b) == "" {
			return ""
		}
		return t.Req.Actor + "|" + idOf(b)
	}
	for _, t := range res.Tasks {
		if k := dupKey(t); k != "" && t.Parent == nil {
			delivered[k]++
		}
	}
	for _, t := range res.Tasks {
		if t.Parent == nil && t.Req != nil && t.done && t.Panic != nil {
			// a panic is C11's finding - except that a request for a disabled protocol has no business reaching any code that could
			if srv := s.World.Servers[t.Srv]; srv != nil && !protoEnabled(srv, t.EntryKind) {
				if ge, ok := ex.Req[t.ID]; ok && ge.Hdr == "ap" && ((strings.HasPrefix(t.EntryKind, "post") && ge.Method == "POST") || (strings.HasPrefix(t.EntryKind, "get") && ge.Method == "GET")) {
					s.violate("C07", "disabled-protocol-not-refused", t.EntryKind, fmt.Sprintf("%s with its protocol disabled went on into request handling and panicked (%v) instead of answering 405", t.EntryKind, t.Panic))
				}
			}
		}
		if t.Parent != nil || t.Req == nil || !t.done || t.Panic != nil {
			continue // a panic is C11's finding
		}
		ge, ok := ex.Req[t.ID]
		if !ok {
			continue
		}
		srv := s.World.Servers[t.Srv]
		isPost := strings.HasPrefix(t.EntryKind, "post")
		right := "GET"
		if isPost {
			right = "POST"
		}
		ap := "amb"
		if ge.Method != right || ge.Hdr == "not" {
			ap = "no"
		} else if ge.Hdr == "ap" {
			ap = "yes"
		}
		if ap == "amb" {
			// spelling outside the documented media types: the observed classification is taken
			if t.Handled {
				ap = "yes"
			} else {
				ap = "no"
			}
			s.probe("gate-ambiguous-header")
		}
		events := appEvents(res, t.ID)
		st := t.Rec.Status
		site := t.EntryKind
		// ---- not an ActivityPub request
		if ap == "no" {
			if t.Handled || t.Err != nil || t.Rec.Wrote() || events > 0 {
				s.violate("C07", "non-activitypub-request-touched", site, fmt.Sprintf("%s %s with header class %q: handled=%v err=%v status=%d, %d application/database/transport events", ge.Method, t.EntryKind, ge.Hdr, t.Handled, t.Err, st, events))
				s.violate("C10", "non-activitypub-request-touched", site, fmt.Sprintf("%s %s (header class %q) must be 'not handled, nothing written': handled=%v status=%d", ge.Method, t.EntryKind, ge.Hdr, t.Handled, st))
			}
			continue
		}
		if !t.Handled {
			s.violate("C07", "activitypub-request-not-handled", site, fmt.Sprintf("%s %s with a documented ActivityStreams media type was reported as not handled", ge.Method, t.EntryKind))
			continue
		}
		// ---- disabled protocol
		if !protoEnabled(srv, t.EntryKind) {
			if events > 0 {
				s.violate("C07", "disabled-protocol-consulted-application", site, fmt.Sprintf("%s on a server with that protocol disabled made %d application/database/transport calls", t.EntryKind, events))
			}
			if t.Err != nil || st != 405 {
				s.violate("C10", "status-405", site, fmt.Sprintf("%s with its protocol disabled: status %d err=%v, expected 405", t.EntryKind, st, t.Err))
			}
			continue
		}
		// ---- authentication
		auth := t.Req.Auth
		if auth == "" || t.EntryKind == "handler" {
			auth = "ok"
		}
		if auth != "ok" {
			if t.sideEff > 0 {
				// (the trace monitor has already reported the precise call)
				s.probe("gate-sideeffect-after-failed-auth")
			}
			if (auth == "err" || auth == "errtrue") && t.Err == nil {
				s.violate("C10", "auth-error-swallowed", site, "authentication returned an error but the handler reported success")
			}
			if auth == "deny" && (t.Err != nil || t.Rec.Wrote()) {
				s.violate("C10", "auth-denied-outcome", site, fmt.Sprintf("authentication denied (the application answered): library status %d err=%v", st, t.Err))
			}
			continue
		}
		// ---- authenticated: status table
		allow := func(statuses []int, errOK bool) {
			if t.Err != nil {
				if !errOK {
					s.violate("C10", "unexpected-error", site+":"+ge.Body, fmt.Sprintf("%s (%s body, type %s) returned error %q; expected status %v", t.EntryKind, ge.Body, ge.Type, trunc(t.Err.Error(), 100), statuses))
				}
				return
			}
			for _, x := range statuses {
				if st == x {
					return
				}
			}
			s.violate("C10", "status-table", site+":"+ge.Body, fmt.Sprintf("%s (%s body, type %s, blocked=%s) answered %d; expected one of %v%s", t.EntryKind, ge.Body, ge.Type, ge.Blocked, st, statuses, map[bool]string{true: " or an error", false: ""}[errOK]))
		}
		switch t.EntryKind {
		case "postInbox", "postOutbox":
			inbox := t.EntryKind == "postInbox"
			okStatus := 201
			if inbox {
				okStatus = 200
			}
			switch ge.Body {
			case "nonjson":
				allow([]int{400}, true)
			case "unknown":
				allow([]int{400}, false)
			case "bare":
				if inbox {
					allow([]int{400}, true) // a non-activity at an inbox: error or 400
				} else {
					allow([]int{201}, true)
				}
			case "idabsent", "idnull":
				allow([]int{400}, false)
			case "idnumber", "idobject":
				allow([]int{400}, true)
			case "idempty", "idrelative":
				allow([]int{400, 200, 403}, true)
			case "actorodd":
				allow([]int{okStatus, 400, 403}, true) // no usable actor: refused or processed, but never without the block check (trace monitor)
			case "noobject", "emptyobject", "notarget":
				if inbox && ge.Blocked == "yes" {
					allow([]int{403}, false)
				} else if inbox && ge.Blocked == "err" {
					allow(nil, true)
				} else if inbox && delivered[dupKey(t)] > 1 {
					allow([]int{400, 200}, false)
				} else {
					allow([]int{400}, false)
				}
			default: // valid
				if inbox && ge.Blocked == "yes" {
					allow([]int{403}, false)
				} else if inbox && ge.Blocked == "err" {
					allow(nil, true)
				} else {
					allow([]int{okStatus}, true) // legitimate failures of side effects (a peer's document missing) surface as errors
				}
			}
			if t.Err == nil && st == 201 {
				loc := t.Rec.HdrAtWrite.Get("Location")
				o := observeOutbox(res, t)
				// the new activity: the stored value of an activity type with an id issued in this request
				want := ""
				for _, e := range o.creates {
					if m, ok := normalise(e.Arg).(map[string]interface{}); ok && isActivityType(typeOf(m)) {
						for _, n := range o.newIDs {
							if n.Res == e.ID {
								want = e.ID
							}
						}
					}
				}
				if loc == "" || loc != want {
					s.violate("C10", "location", site, fmt.Sprintf("201 with Location %q; the new activity's id is %q", loc, want))
				}
			}
		case "getInbox", "getOutbox":
			allow([]int{200}, true)
		case "handler":
			want := 200
			scheme := srv.Spec.Scheme
			if scheme == "" {
				scheme = "https"
			}
			docID := scheme + "://" + t.Srv + t.Req.Path
			d := res.Before[t.Srv][docID]
			if supplied, _ := t.Result.(string); supplied != "" {
				d = supplied // the value the database handed to this very request (a concurrent client Delete may have replaced it)
			} else if _, nowThere := res.After[t.Srv][docID]; d == "" && nowThere {
				continue // created by a concurrent request; whether this GET saw it is a matter of schedule
			}
			if d == "" {
				if t.Err == nil {
					s.violate("C10", "missing-value-served", site, fmt.Sprintf("GET of a missing value answered %d without error", st))
				}
				continue
			}
			if m, err := parseJ([]byte(d)); err == nil && isTombstoneDoc(m) {
				want = 410
			}
			allow([]int{want}, false)
		}
	}
}

func init() {
	rule := "case = 1-3 requests in flight drawn from the product {PostInbox, PostOutbox, GetInbox, GetOutbox, ActivityStreams handler} x {Social, Federating, both} x authentication {ok, denied, error} x block {no, yes, error} x method {GET, POST, PUT, HEAD, DELETE} x Content-Type/Accept spelling (7 documented, 6 foreign, 3 ambiguous) x body {valid activity of each handled type, bare object, unknown type, non-JSON, id absent/null/empty/number/object/relative, object absent/empty, target absent/empty}, under a seeded schedule; every sixth case instead runs the shipped base actor over an application-written DelegateActor (pub.NewCustomActor) whose steps are scripted to succeed, refuse (answering themselves) or fail, and checks that the steps consulted are the documented prefix and the outcome the one the ending step calls for; "
	register(&PropDef{
		ID: "C07", Level: "exploration", Engine: "fedsim",
		Rule: rule + "oracle = per-task trace automaton (no Database/Transport/side-effect callback before authentication succeeded and, for inbox POSTs, before the block check passed) plus 'non-ActivityPub => not handled, nothing touched' and 'disabled protocol => application never consulted'. distinct = distinct event sequences.",
		QuickCases: 8000, QuickBudgetS: 150, ThoroughBudgetS: 600,
		Drive: func(c *DriveCtx, r *Rng, k int) {
			if k%6 == 5 {
				c.Exec(genCustom(r, "C07", k))
				return
			}
			c.Exec(genGate(r, "C07", k))
		},
		Oracle: oracleGate,
		Assumptions: []string{"header spellings outside the documented media types (upper case, parameters between type and profile) are classified by the observed 'handled' value; only consistency is required for them",
			"side-effect callbacks = activity callbacks (wrapped / other / default) and FilterForwarding; the callback getters, body hooks and NewTransport are not side effects"},
	})
	cp := corpus("C10")
	register(&PropDef{
		ID: "C10", Level: "fault_enumeration", Engine: "fedsim",
		Rule: rule + "and, for every scenario of the side-effect corpus, the fault-free run plus one run per fallible seam call failing (complete single-fault sweep); oracle = counting ResponseWriter + (handled, err): exactly one of {not handled, nothing written; handled, error, nothing written by the library; handled, nil, exactly one status} and the status table of the statement.",
		QuickCases: 5000 + len(cp), QuickBudgetS: 150, ThoroughBudgetS: 600, Exhaustive: false,
		Drive: func(c *DriveCtx, r *Rng, k int) {
			if k < len(cp) {
				c.singleFaultSweep(cp[k].Make, faultKindFor)
				return
			}
			if k%6 == 5 {
				// an application-written delegate under the shipped base actor, with a single-fault sweep over its steps
				sp := genCustom(r, "C10", k)
				c.singleFaultSweep(func() *RunSpec { return sp.Clone() }, func(string) string { return "cb_err" })
				return
			}
			c.Exec(genGate(r, "C10", k))
		},
		Oracle: oracleGate,
		Assumptions: []string{"id absent or null => 400 required; number/object ids: 400 or an error; empty or relative ids: 400, an error, or acceptance (the statement does not define 'usable')",
			"writes made by the application inside Authenticate* (it is told to answer on denial) are attributed to the application",
			"a failing ResponseWriter.Write is outside the quantifier and is not injected"},
	})
}

// isTombstoneDoc: one of the document's types is Tombstone (plain or with the prefix its @context binds to ActivityStreams).
func isTombstoneDoc(m J) bool {
	names := map[string]bool{"Tombstone": true}
	for _, a := range asAliases(m["@context"]) {
		names[a+":Tombstone"] = true
	}
	for _, t := range aslist(m["type"]) {
		if ts, ok := t.(string); ok && names[ts] {
			return true
		}
	}
	return false
}
