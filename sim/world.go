package sim

import (
	"bytes"
	"context"
	"encoding/json"
	"fmt"
	"io"
	"net/http"
	"net/url"
	"sort"
	"strings"
	"time"

	"github.com/go-fed/activity/pub"
)

const ctLD = "application/ld+json; profile=\"https://www.w3.org/ns/activitystreams\""

type Server struct {
	s       *Sim
	Spec    *ServerSpec
	DB      *SimDB
	App     *SimApp
	Actor   pub.FederatingActor // nil when only Social (then Plain is set)
	Plain   pub.Actor
	Handler pub.HandlerFunc
	Actors  []*ActorDir
	Clock   *SimClock
}

type World struct {
	s       *Sim
	Servers map[string]*Server
	Order   []string
	Remote  map[string]json.RawMessage
	Fate    map[string]string
	Wire    []WireMsg // everything handed to a Transport for delivery
	Derefs  []DerefRec
	Tx      *TxWorld
}

// WireMsg records one BatchDeliver / Deliver.
type WireMsg struct {
	Seq        int      `json:"seq"`
	Task       string   `json:"task"`
	Srv        string   `json:"srv"`
	Box        string   `json:"box"` // actor box the transport was created for
	Payload    string   `json:"payload"`
	Recipients []string `json:"recipients"`
	Batch      bool     `json:"batch"`
	Err        bool     `json:"err,omitempty"`
}

type DerefRec struct {
	Seq  int    `json:"seq"`
	Task string `json:"task"`
	Srv  string `json:"srv"`
	IRI  string `json:"iri"`
	Res  string `json:"res"`
}

func actorDir(host, name string) *ActorDir { return actorDirS("https", host, name) }

// actorDirS: actors whose name starts with 'q' have their boxes addressed through a query string
// (https://host/boxes?user=quinn&box=inbox), a legal shape for box IRIs.
func actorDirS(scheme, host, name string) *ActorDir {
	if scheme == "" {
		scheme = "https"
	}
	base := scheme + "://" + host + "/u/" + name
	if name == "qroot" {
		// its outbox is the very IRI the others extend with a query string
		return &ActorDir{Name: name, ID: base, Inbox: scheme + "://" + host + "/boxes-in", Outbox: scheme + "://" + host + "/boxes",
			Followers: base + "/followers", Following: base + "/following", Liked: base + "/liked"}
	}
	if strings.HasPrefix(name, "q") {
		q := scheme + "://" + host + "/boxes?user=" + name + "&box="
		return &ActorDir{Name: name, ID: base, Inbox: q + "inbox", Outbox: q + "outbox",
			Followers: q + "followers", Following: q + "following", Liked: q + "liked"}
	}
	return &ActorDir{Name: name, ID: base, Inbox: base + "/inbox", Outbox: base + "/outbox",
		Followers: base + "/followers", Following: base + "/following", Liked: base + "/liked"}
}

func actorDoc(a *ActorDir) J {
	return J{"@context": asCtx, "type": "Person", "id": a.ID, "inbox": a.Inbox, "outbox": a.Outbox,
		"followers": a.Followers, "following": a.Following, "liked": a.Liked, "name": a.Name}
}

func buildWorld(s *Sim, ws *WorldSpec) *World {
	w := &World{s: s, Servers: map[string]*Server{}, Remote: map[string]json.RawMessage{}, Fate: map[string]string{}}
	for k, v := range ws.Fate {
		w.Fate[k] = v
	}
	for _, d := range ws.Remote {
		w.Remote[d.ID] = d.Doc
	}
	for i := range ws.Servers {
		sp := &ws.Servers[i]
		srv := &Server{s: s, Spec: sp}
		srv.DB = &SimDB{s: s, srv: srv, store: map[string]json.RawMessage{}}
		srv.Clock = &SimClock{s: s, srv: srv}
		srv.App = &SimApp{s: s, srv: srv}
		for _, name := range sp.Actors {
			a := actorDirS(sp.Scheme, sp.Host, name)
			srv.Actors = append(srv.Actors, a)
			srv.DB.put(a.ID, actorDoc(a))
			srv.DB.put(a.Inbox, J{"@context": asCtx, "type": "OrderedCollectionPage", "id": a.Inbox})
			srv.DB.put(a.Outbox, J{"@context": asCtx, "type": "OrderedCollectionPage", "id": a.Outbox})
			srv.DB.put(a.Followers, J{"@context": asCtx, "type": "Collection", "id": a.Followers})
			srv.DB.put(a.Following, J{"@context": asCtx, "type": "Collection", "id": a.Following})
			srv.DB.put(a.Liked, J{"@context": asCtx, "type": "Collection", "id": a.Liked})
		}
		for _, d := range sp.Docs {
			srv.DB.put(d.ID, mustParseJ(d.Doc))
		}
		switch {
		case sp.Custom != nil:
			fa := pub.NewCustomActor(&ScriptDelegate{s: s, srv: srv}, sp.Social, sp.Federating, srv.Clock)
			srv.Plain = fa
			if sp.Federating {
				srv.Actor = fa
			}
		case sp.Social && sp.Federating:
			srv.Actor = pub.NewActor(srv.App, srv.App, fedProto{srv.App}, srv.DB, srv.Clock)
			srv.Plain = srv.Actor
		case sp.Federating:
			srv.Actor = pub.NewFederatingActor(srv.App, fedProto{srv.App}, srv.DB, srv.Clock)
			srv.Plain = srv.Actor
		default:
			srv.Plain = pub.NewSocialActor(srv.App, srv.App, srv.DB, srv.Clock)
		}
		if sp.Scheme == "" || sp.Scheme == "https" {
			srv.Handler = pub.NewActivityStreamsHandler(srv.DB, srv.Clock)
		} else {
			srv.Handler = pub.NewActivityStreamsHandlerScheme(srv.DB, srv.Clock, sp.Scheme)
		}
		w.Servers[sp.Host] = srv
		w.Order = append(w.Order, sp.Host)
	}
	return w
}

func (srv *Server) actorByName(n string) *ActorDir {
	for _, a := range srv.Actors {
		if a.Name == n {
			return a
		}
	}
	return nil
}

func (srv *Server) actorByInbox(in string) *ActorDir {
	for _, a := range srv.Actors {
		if a.Inbox == in {
			return a
		}
	}
	return nil
}

// ---- clock ----------------------------------------------------------------

type SimClock struct {
	s     *Sim
	srv   *Server
	jump  int64
	Reads []ClockRead
}

type ClockRead struct {
	Task string
	At   time.Time
}

func (c *SimClock) Now() time.Time {
	base := c.srv.Spec.ClockBase
	if base == 0 {
		base = 1_700_000_000
	}
	// reading the clock takes time: other requests may run meanwhile
	if tk := c.s.curTask(); tk != nil && !c.s.inAbort() {
		c.s.yield(Op{Kind: opPause, Method: "clock.Now"})
	}
	// every read advances the clock (a second read is visible); the step varies between 1 ms and ~1.5 s so that
	// consecutive readings fall within one second as well as across second boundaries
	step := int64(1_000_000_000)
	if c.srv.Spec.ClockFine {
		step = 1_000_000 * int64(1+(len(c.Reads)*7919+int(c.srv.Spec.ClockBase%997))%1500)
	}
	c.s.now += step
	if f := c.s.faultsAt[fmt.Sprintf("clock|%d", len(c.Reads)+1)]; f != nil && c.srv == c.s.World.Servers[c.s.World.Order[0]] {
		var d int64
		fmt.Sscan(f.Arg, &d)
		c.jump += d
		c.s.Fired[f.Kind]++
	}
	ns := c.s.now + (c.srv.Spec.ClockSkewS+c.jump)*1_000_000_000
	t := time.Unix(base, 0).Add(time.Duration(ns))
	if z := c.srv.Spec.Zone; z != 0 {
		t = t.In(time.FixedZone("sim", z))
	} else {
		t = t.UTC()
	}
	id := "?"
	if tk := c.s.curTask(); tk != nil {
		id = tk.ID
	}
	c.Reads = append(c.Reads, ClockRead{Task: id, At: t})
	return t
}

// ---- response recorder ------------------------------------------------------

type Recorder struct {
	s          *Sim
	hdr        http.Header
	Status     int
	WriteHdrN  int
	WriteN     int
	Body       bytes.Buffer
	AppWrites  int  // writes made while application code (Authenticate*) was running
	inApp      bool
	HdrAtWrite http.Header
}

func newRecorder() *Recorder { return &Recorder{hdr: http.Header{}} }

func (r *Recorder) Header() http.Header { return r.hdr }
func (r *Recorder) WriteHeader(code int) {
	if r.inApp {
		r.AppWrites++
		return
	}
	r.WriteHdrN++
	if r.WriteHdrN == 1 {
		r.Status = code
		r.HdrAtWrite = r.hdr.Clone()
	}
}
func (r *Recorder) Write(b []byte) (int, error) {
	if r.s != nil && !r.inApp && !r.s.inAbort() && r.s.curTask() != nil {
		r.s.yield(Op{Kind: opPause, Method: "http.Write"}) // a slow client
	}
	if r.inApp {
		r.AppWrites++
		return len(b), nil
	}
	r.WriteN++
	if r.WriteHdrN == 0 {
		r.WriteHdrN = 1
		r.Status = 200
		r.HdrAtWrite = r.hdr.Clone()
	}
	r.Body.Write(b)
	return len(b), nil
}
func (r *Recorder) Wrote() bool { return r.WriteHdrN > 0 || r.WriteN > 0 }

// ---- running requests ---------------------------------------------------------

func strp(s string) *string { return &s }

func (w *World) httpReq(rs *ReqSpec, a *ActorDir, host string) *http.Request {
	var path string
	method := rs.Method
	var body io.Reader
	hdr := http.Header{}
	switch rs.Kind {
	case "postInbox":
		path = pathOf(a.Inbox)
	case "postOutbox":
		path = pathOf(a.Outbox)
	case "getInbox":
		path = pathOf(a.Inbox)
	case "getOutbox":
		path = pathOf(a.Outbox)
	case "handler":
		path = rs.Path
	}
	isPost := rs.Kind == "postInbox" || rs.Kind == "postOutbox"
	if method == "" {
		if isPost {
			method = "POST"
		} else {
			method = "GET"
		}
	}
	if rs.RawBody != nil {
		body = strings.NewReader(*rs.RawBody)
	} else if rs.Body != nil {
		body = bytes.NewReader(rs.Body)
	} else {
		body = strings.NewReader("")
	}
	if rs.ContentType != nil {
		if *rs.ContentType != "" {
			hdr.Set("Content-Type", *rs.ContentType)
		}
	} else if isPost {
		hdr.Set("Content-Type", ctLD)
	}
	if rs.Accept != nil {
		if *rs.Accept != "" {
			hdr.Set("Accept", *rs.Accept)
		}
	} else if !isPost {
		hdr.Set("Accept", ctLD)
	}
	u := &url.URL{Path: path}
	if i := strings.IndexByte(path, '?'); i >= 0 {
		u = &url.URL{Path: path[:i], RawQuery: path[i+1:]}
	}
	r := &http.Request{Method: method, URL: u, Host: host, Header: hdr, Body: io.NopCloser(body), Proto: "HTTP/1.1"}
	return r
}

type ctxKey string

// runRequest is the body of a request task.
func (w *World) runRequest(t *Task, rs *ReqSpec) {
	srv := w.Servers[rs.Server]
	if srv == nil {
		panic("sim: unknown server " + rs.Server)
	}
	t.Srv = rs.Server
	t.Req = rs
	t.EntryKind = rs.Kind
	t.Rec = newRecorder()
	t.Rec.s = w.s
	if rs.Kind == "handler" || rs.Kind == "send" {
		t.authOK, t.blockOK = true, true
	}
	a := srv.actorByName(rs.Actor)
	if a == nil && rs.Kind != "handler" {
		panic("sim: unknown actor " + rs.Actor)
	}
	cctx, cancel := context.WithCancel(context.Background())
	switch rs.CtxDone {
	case "canceled":
		cancel()
	case "deadline":
		cancel()
		cctx, cancel = context.WithDeadline(context.Background(), time.Unix(0, 0))
	}
	t.cancel = cancel
	ctx := context.WithValue(cctx, ctxKey("task"), t.ID)
	if t.Parent == nil {
		t.Snap = srv.DB.snapshot()
	}
	w.s.logEv(Event{Task: t.ID, Srv: rs.Server, Kind: "req.start", ID: rs.Kind, Arg: rs.Body})
	switch rs.Kind {
	case "postInbox":
		if sc := srv.Spec.Scheme; sc != "" && sc != "https" {
			t.Handled, t.Err = srv.Plain.PostInboxScheme(ctx, t.Rec, w.httpReq(rs, a, rs.Server), sc)
		} else {
			t.Handled, t.Err = srv.Plain.PostInbox(ctx, t.Rec, w.httpReq(rs, a, rs.Server))
		}
	case "postOutbox":
		if sc := srv.Spec.Scheme; sc != "" && sc != "https" {
			t.Handled, t.Err = srv.Plain.PostOutboxScheme(ctx, t.Rec, w.httpReq(rs, a, rs.Server), sc)
		} else {
			t.Handled, t.Err = srv.Plain.PostOutbox(ctx, t.Rec, w.httpReq(rs, a, rs.Server))
		}
	case "getInbox":
		t.Handled, t.Err = srv.Plain.GetInbox(ctx, t.Rec, w.httpReq(rs, a, rs.Server))
	case "getOutbox":
		t.Handled, t.Err = srv.Plain.GetOutbox(ctx, t.Rec, w.httpReq(rs, a, rs.Server))
	case "handler":
		t.Handled, t.Err = srv.Handler(ctx, t.Rec, w.httpReq(rs, nil, rs.Server))
	case "send":
		if srv.Actor == nil {
			// a Social-only Actor has no Send: nothing to run
			w.s.logEv(Event{Task: t.ID, Srv: rs.Server, Kind: "req.end", ID: rs.Kind, Res: "no-send-on-social-only-actor"})
			return
		}
		body := rs.Body
		val, err := decodeType(body)
		if err != nil {
			panic("sim: send body does not decode: " + err.Error())
		}
		ou, _ := url.Parse(a.Outbox)
		var act pub.Activity
		act, t.Err = srv.Actor.Send(ctx, ou, val)
		t.Handled = true
		if t.Err == nil && act != nil {
			t.Result = typeID(act)
		}
	default:
		panic("sim: unknown request kind " + rs.Kind)
	}
	if t.dead {
		// the server crashed while this request was blocked inside the library; whatever it did afterwards never happened
		t.Handled, t.Err = false, errCrashed
		return
	}
	res := fmt.Sprintf("handled=%v status=%d", t.Handled, t.Rec.Status)
	if t.Err != nil {
		res += " err=" + trunc(t.Err.Error(), 120)
	}
	w.s.logEv(Event{Task: t.ID, Srv: rs.Server, Kind: "req.end", ID: rs.Kind, Res: res})
	w.s.monEnd(t)
}

// ---- transport ------------------------------------------------------------------

type SimTransport struct {
	s   *Sim
	srv *Server
	box string
}

var _ pub.Transport = (*SimTransport)(nil)

// fetch answers a GET for iri as the network would, without scheduling.
// Returns (body, outcome).
func (w *World) fetch(from *Server, iri string) ([]byte, string) {
	if f, ok := w.Fate[iri]; ok {
		switch f {
		case "unreachable":
			return nil, "unreachable"
		case "nonjson":
			return []byte("<html>not json"), "nonjson"
		case "notobject":
			return []byte("[1,2,3]"), "notobject"
		case "unknowntype":
			return []byte(`{"@context":"` + asCtx + `","type":"Frobnicate","id":"` + iri + `"}`), "unknowntype"
		case "trailing":
			// the complete document followed by something else (a proxy's error page appended): not a JSON document
			if b, ok := w.Remote[iri]; ok {
				return append(append([]byte(nil), b...), []byte("\n<html><body>502 Bad Gateway</body></html>")...), "trailing"
			}
			return []byte("{} trailing"), "trailing"
		case "nocontext", "notype":
			// valid JSON that cannot be interpreted: the document without its @context, or without its type
			if b, ok := w.Remote[iri]; ok {
				if m, err := parseJ(b); err == nil {
					if f == "nocontext" {
						delete(m, "@context")
					} else {
						delete(m, "type")
					}
					return mustJSON(m), f
				}
			}
			return []byte(`{"id":"` + iri + `"}`), f
		}
	}
	if b, ok := w.Remote[iri]; ok {
		return b, "ok"
	}
	return nil, "absent"
}

func (tp *SimTransport) Dereference(c context.Context, iri *url.URL) ([]byte, error) {
	if tp.s.inAbort() {
		return nil, errInjected
	}
	id := ustr(iri)
	msg := tp.s.yield(Op{Kind: opCall, Method: "tp.Dereference", Srv: tp.srv.Spec.Host, ID: id})
	t := tp.s.cur
	tp.s.monSeam(t, "tp", "Dereference", tp.srv.Spec.Host)
	w := tp.s.World
	rec := DerefRec{Seq: len(tp.s.Log), Task: t.ID, Srv: tp.srv.Spec.Host, IRI: id}
	if msg.fault != nil {
		rec.Res = "fault"
		w.Derefs = append(w.Derefs, rec)
		tp.s.logEv(Event{Srv: tp.srv.Spec.Host, Kind: "tp.Dereference", ID: id, Fault: true, Res: "err"})
		return nil, injectedErr(tp.s, msg.fault, "")
	}
	if isPublic(id) {
		tp.s.violate("C02", "public-dereferenced", "tp.Dereference", "the Public collection was dereferenced by "+t.ID)
	}
	// documents of simulated servers are served by the real handler of that server, as a nested request
	if dst := w.Servers[hostOf(id)]; dst != nil && w.Fate[id] == "" {
		child := tp.s.spawnChild(t, "net", nil)
		rs := &ReqSpec{ID: child.ID, Server: dst.Spec.Host, Kind: "handler", Path: pathOf(id)}
		child.fn = func() { w.runRequest(child, rs) }
		tp.s.yield(Op{Kind: opAwait, Method: "net.await", Wait: []*Task{child}})
		tp.s.probe("nested-dereference")
		if child.Err == nil && child.Handled && child.Rec.Status == 200 {
			rec.Res = "ok"
			w.Derefs = append(w.Derefs, rec)
			tp.s.logEv(Event{Srv: tp.srv.Spec.Host, Kind: "tp.Dereference", ID: id, Res: "ok", Nested: child.ID})
			return tp.s.corruptDoc(id, child.Rec.Body.Bytes()), nil
		}
		rec.Res = "fail"
		w.Derefs = append(w.Derefs, rec)
		tp.s.logEv(Event{Srv: tp.srv.Spec.Host, Kind: "tp.Dereference", ID: id, Res: fmt.Sprintf("fail status=%d", child.Rec.Status), Nested: child.ID})
		return nil, fmt.Errorf("sim: GET %s failed (%d)", id, child.Rec.Status)
	}
	b, out := w.fetch(tp.srv, id)
	rec.Res = out
	w.Derefs = append(w.Derefs, rec)
	tp.s.logEv(Event{Srv: tp.srv.Spec.Host, Kind: "tp.Dereference", ID: id, Res: out})
	if b == nil {
		return nil, fmt.Errorf("sim: GET %s: %s", id, out)
	}
	return tp.s.corruptDoc(id, b), nil
}

func (tp *SimTransport) Deliver(c context.Context, b []byte, to *url.URL) error {
	return tp.deliver(c, b, []*url.URL{to}, false)
}

func (tp *SimTransport) BatchDeliver(c context.Context, b []byte, recipients []*url.URL) error {
	return tp.deliver(c, b, recipients, true)
}

func (tp *SimTransport) deliver(c context.Context, b []byte, recipients []*url.URL, batch bool) error {
	if tp.s.inAbort() {
		return errInjected
	}
	method := "tp.Deliver"
	if batch {
		method = "tp.BatchDeliver"
	}
	msg := tp.s.yield(Op{Kind: opCall, Method: method, Srv: tp.srv.Spec.Host})
	t := tp.s.cur
	tp.s.monSeam(t, "tp", method[3:], tp.srv.Spec.Host)
	w := tp.s.World
	var rcpts []string
	for _, r := range recipients {
		rcpts = append(rcpts, ustr(r))
	}
	wm := WireMsg{Seq: len(tp.s.Log), Task: t.ID, Srv: tp.srv.Spec.Host, Box: tp.box, Payload: string(b), Recipients: rcpts, Batch: batch}
	if msg.fault != nil {
		wm.Err = true
		w.Wire = append(w.Wire, wm)
		tp.s.logEv(Event{Srv: tp.srv.Spec.Host, Kind: method, Arg: J{"payload": json.RawMessage(b), "to": rcpts}, Fault: true, Res: "err"})
		return errInjected
	}
	w.Wire = append(w.Wire, wm)
	tp.s.monWire(t, tp, &wm)
	tp.s.logEv(Event{Srv: tp.srv.Spec.Host, Kind: method, Arg: J{"payload": json.RawMessage(b), "to": rcpts}})
	// hand each copy to the network
	var children []*Task
	occ := map[string]int{}
	var failed []string
	for _, r := range rcpts {
		occ[r]++
		site := fmt.Sprintf("%s|net|%s#%d", t.ID, r, occ[r])
		copies := 1
		if f := tp.s.faultsAt[site]; f != nil {
			tp.s.Fired[f.Kind]++
			switch f.Kind {
			case "net_drop":
				copies = 0
				failed = append(failed, r)
			case "net_dup":
				copies = 2
			case "http_err":
				copies = 0
				failed = append(failed, r)
			}
		}
		dst := w.Servers[hostOf(r)]
		if dst == nil {
			continue // scripted remote host: accepted, recorded in Wire only
		}
		a := dst.actorByInbox(r)
		if a == nil {
			continue // not an inbox of that server: a sink as far as the simulation goes
		}
		for i := 0; i < copies; i++ {
			child := tp.s.spawnChild(t, "net", nil)
			body := append([]byte(nil), b...)
			rs := &ReqSpec{ID: child.ID, Server: dst.Spec.Host, Kind: "postInbox", Actor: a.Name, Body: body}
			child.fn = func() { w.runRequest(child, rs) }
			children = append(children, child)
		}
	}
	if len(children) > 0 {
		tp.s.probe("nested-delivery")
	}
	if tp.srv.Spec.Transport == "queued" || len(children) == 0 {
		if len(failed) > 0 && tp.srv.Spec.Transport != "queued" {
			return fmt.Errorf("sim: delivery failed for %v", failed)
		}
		return nil
	}
	tp.s.yield(Op{Kind: opAwait, Method: "net.await", Wait: children})
	for _, ch := range children {
		if ch.Err != nil || !ch.Handled || ch.Rec.Status < 200 || ch.Rec.Status > 299 {
			failed = append(failed, ch.Req.Actor)
		}
	}
	if len(failed) > 0 {
		sort.Strings(failed)
		return fmt.Errorf("sim: delivery failed for %v", failed)
	}
	return nil
}
