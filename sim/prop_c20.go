package sim

// C20: served ActivityStreams bodies are faithful, de-duplicated and integrity-tagged.

import (
	"crypto/sha256"
	"encoding/base64"
	"errors"
	"fmt"
	"strings"

	"github.com/go-fed/activity/pub"
)

var asTypes = []string{"Accept", "Activity", "Add", "Announce", "Application", "Arrive", "Article", "Audio", "Block", "Collection", "CollectionPage", "Create", "Delete", "Dislike", "Document", "Event", "Flag", "Follow", "Group", "Ignore", "Image", "IntransitiveActivity", "Invite", "Join", "Leave", "Like", "Link", "Listen", "Mention", "Move", "Note", "Object", "Offer", "OrderedCollection", "OrderedCollectionPage", "Organization", "Page", "Person", "Place", "Profile", "Question", "Read", "Reject", "Relationship", "Remove", "Service", "TentativeAccept", "TentativeReject", "Tombstone", "Travel", "Undo", "Update", "Video", "View"}

var extTypes = map[string]string{"Branch": "https://forgefed.peers.community/ns", "Commit": "https://forgefed.peers.community/ns", "Push": "https://forgefed.peers.community/ns",
	"Repository": "https://forgefed.peers.community/ns", "Ticket": "https://forgefed.peers.community/ns", "TicketDependency": "https://forgefed.peers.community/ns",
	"Emoji": "http://joinmastodon.org/ns", "IdentityProof": "http://joinmastodon.org/ns", "PublicKey": "https://w3id.org/security/v1"}

func genC20(r *Rng, k int) *RunSpec {
	o := defaultOpt()
	switch r.Intn(4) {
	case 0:
		o.Social, o.Federating = false, true
	}
	st := newStd(o)
	a := &st.W.Servers[0]
	a.ClockBase = int64(r.Intn(2_000_000_000))
	a.Zone = Pick(r, []int{0, 3600, -3600 * 11, 19800, 3600 * 14})
	a.ClockSkewS = int64(r.Intn(200000) - 100000)
	a.GetMissing = Pick(r, []string{"nil", "nil", "error"})
	a.ClockFine = r.Intn(3) > 0
	// a page with 0..30 items, duplicates at arbitrary positions, IRIs or embedded values
	page := func(id string) J {
		n := r.Intn(31)
		var items []interface{}
		var ids []string
		for i := 0; i < n; i++ {
			var iid string
			if len(ids) > 0 && r.Intn(4) == 0 {
				iid = Pick(r, ids)
			} else {
				iid = fmt.Sprintf("https://%s%s/act/i%d%s", Pick(r, []string{"", "", "", "alice@", "bob:secret@"}), Pick(r, []string{hostR, hostR, hostR + ":8443"}), i, Pick(r, []string{"", "", "?v=1", "#frag", "/caf%C3%A9%20au%20lait", "?q=100%25"}))
				ids = append(ids, iid)
			}
			if r.Intn(9) == 0 {
				// a Link-derived value: it is what its id says, wherever it points (two bookmarks of one page are two entries)
				items = append(items, J{"type": Pick(r, []string{"Link", "Mention"}), "id": iid, "href": "https://" + hostR + "/page/" + fmt.Sprint(r.Intn(3))})
			} else if r.Intn(25) == 0 {
				// an anonymous embedded value: it has no identity to de-duplicate by
				items = append(items, J{"type": "Note", "content": fmt.Sprint("anonymous ", i)})
			} else if r.Intn(3) == 0 {
				it := J{"type": Pick(r, []string{"Create", "Like", "Note", "Announce"}), "id": iid, "summary": Pick(r, []string{fmt.Sprint("s", i), "100% sure, %d%s%v"})}
				// what the application supplies is served as supplied: a page may embed values that carry hidden recipients
				if r.Intn(4) == 0 {
					it[Pick(r, []string{"bto", "bcc"})] = st.Dave
				}
				if r.Intn(5) == 0 && it["type"] != "Note" {
					it["object"] = J{"type": "Note", "id": iid + "/o", "bto": []string{st.Erin}, "content": "inner"}
				}
				items = append(items, it)
			} else {
				items = append(items, iid)
			}
		}
		d := J{"@context": asCtx, "type": "OrderedCollectionPage", "id": id}
		if n > 0 || r.Bool() {
			if items == nil {
				items = []interface{}{}
			}
			d["orderedItems"] = items
		}
		if r.Bool() {
			d["partOf"] = id + "?all"
		}
		// the other members of a page are the application's business too
		if r.Bool() {
			d["totalItems"] = n + r.Intn(40)
		}
		if r.Intn(3) == 0 {
			d["startIndex"] = r.Intn(100)
		}
		if r.Intn(3) == 0 {
			d["next"] = id + "?page=2"
		}
		if r.Intn(4) == 0 {
			d["summary"] = "page"
		}
		return d
	}
	a.Docs = append(a.Docs, DocSpec{st.Alice.Inbox, mustJSON(page(st.Alice.Inbox))}, DocSpec{st.Alice.Outbox, mustJSON(page(st.Alice.Outbox))})
	// a value of an arbitrary vocabulary type for the handler
	var typ string
	var ctx interface{} = asCtx
	if r.Intn(6) == 0 {
		names := sortedKeys(extTypes)
		typ = Pick(r, names)
		ctx = []string{asCtx, extTypes[typ]}
	} else {
		typ = Pick(r, append(append([]string{}, asTypes...), "Tombstone", "Tombstone", "Tombstone", "OrderedCollection", "OrderedCollectionPage", "Collection"))
	}
	vid := "https://" + hostA + "/v/1"
	val := J{"@context": ctx, "type": typ, "id": vid, "name": "value", "x-unknown": J{"kept": true}}
	if typ != "Link" && typ != "Mention" && typ != "PublicKey" {
		if r.Bool() {
			val["bto"] = st.Dave
		}
		if r.Bool() {
			val["bcc"] = []string{st.Erin, st.Dave}
		}
		if r.Intn(3) == 0 && isActivityType(typ) && typ != "Arrive" && typ != "Travel" && typ != "IntransitiveActivity" && typ != "Question" { // intransitive types have no object property
			val["object"] = J{"type": "Note", "id": "https://" + hostA + "/v/2", "bto": st.Dave, "content": "inner"}
			if r.Intn(3) == 0 {
				// several embedded objects, each with hidden recipients of its own
				val["object"] = []interface{}{val["object"], J{"type": "Note", "id": "https://" + hostA + "/v/3", "bcc": []string{st.Erin}, "content": "second"}, "https://" + hostA + "/v/4"}
			}
		}
	}
	if strings.HasSuffix(typ, "Collection") || strings.HasSuffix(typ, "CollectionPage") || r.Intn(12) == 0 && !isActivityType(typ) && typ != "Link" && typ != "Mention" && typ != "PublicKey" && typ != "Tombstone" {
		// a stored collection is served as stored: repeated entries and all (only GetInbox de-duplicates)
		key := "items"
		if strings.HasPrefix(typ, "Ordered") {
			key = "orderedItems"
		}
		if key == "orderedItems" || strings.HasSuffix(typ, "Collection") || strings.HasSuffix(typ, "CollectionPage") {
			e1, e2 := "https://"+hostR+"/act/e1", "https://"+hostR+"/act/e2"
			val[key] = []interface{}{e1, e2, e1, J{"type": "Note", "id": e2, "content": "again"}, e1}
			val["totalItems"] = 5
		}
	}
	if typ == "Tombstone" {
		if r.Bool() {
			val["type"] = []string{"Tombstone", "Note"} // several types: still a Tombstone
		}
		val["formerType"] = "Note"
		val["deleted"] = "2019-05-05T05:05:05Z"
	}
	a.Docs = append(a.Docs, DocSpec{vid, mustJSON(val)})
	var reqs []ReqSpec
	n := 1 + r.Intn(3)
	for i := 0; i < n; i++ {
		id := fmt.Sprintf("r%d", i)
		switch r.Intn(5) {
		case 0, 1:
			if o.Federating || true {
				reqs = append(reqs, getReq(id, "getInbox", st.Alice, hostA))
			}
		case 2:
			reqs = append(reqs, getReq(id, "getOutbox", st.Alice, hostA))
		case 3:
			reqs = append(reqs, handlerReq(id, hostA, Pick(r, []string{vid, vid, "https://" + hostA + "/v/missing", st.Note1})))
		default:
			// a POST that modifies the inbox / outbox being read
			if o.Social && r.Bool() {
				reqs = append(reqs, outboxReq(id, st.Alice, hostA, J{"@context": asCtx, "type": "Note", "content": "while reading", "to": st.Dave}))
			} else {
				reqs = append(reqs, inboxReq(id, st.Alice, hostA, st.act("Like", J{"object": st.Note1})))
			}
		}
	}
	sp := mk("C20", st, reqs...)
	sp.Sched = SchedSpec{Strategy: Pick(r, []string{"fifo", "random", "sticky"}), Seed: r.U64()}
	// clock jumps (forward and backward) on some clock reads
	if r.Intn(3) == 0 {
		sp.Faults = append(sp.Faults, FaultSpec{Site: fmt.Sprintf("clock|%d", 1+r.Intn(3)), Kind: "clock_jump", Arg: fmt.Sprint(r.Intn(2_000_000) - 1_000_000)})
	}
	sp.Gen = fmt.Sprintf("c20/%d/%s", k, typ)
	sp.MapSeed = r.U64() | 1
	return sp
}

func stripHiddenDeep(m J) {
	delete(m, "bto")
	delete(m, "bcc")
	for _, o := range aslist(m["object"]) {
		if om, ok := o.(map[string]interface{}); ok {
			stripHiddenDeep(om)
		}
	}
}

func oracleC20(c *DriveCtx, res *Result) {
	s := res.Sim
	for _, t := range res.Tasks {
		if t.Parent != nil || t.Req == nil || !t.done || t.Panic != nil {
			continue
		}
		if t.EntryKind != "getInbox" && t.EntryKind != "getOutbox" && t.EntryKind != "handler" {
			continue
		}
		if taskFaulted(res, t) {
			continue
		}
		srv := s.World.Servers[t.Srv]
		site := t.EntryKind
		var want J
		wantStatus := 200
		switch t.EntryKind {
		case "getInbox", "getOutbox":
			if t.EntryKind == "getInbox" && !srv.Spec.Federating {
				continue // no FederatingProtocol to ask (C11 covers what happens instead)
			}
			supplied, _ := t.Result.(string)
			if supplied == "" {
				continue
			}
			want = mustParseJ([]byte(supplied))
			if t.EntryKind == "getInbox" {
				seen := map[string]bool{}
				var kept []interface{}
				bad := false
				for _, it := range aslist(want["orderedItems"]) {
					id := idOf(it)
					if id == "" {
						bad = true
					}
					if !seen[id] {
						seen[id] = true
						kept = append(kept, it)
					}
				}
				if bad {
					// a page with an entry that has no identity: the library may refuse it (error, nothing written); if it
					// serves it, what it serves must still not repeat an id
					s.probe("c20-anonymous-item")
					if t.Err == nil && t.Rec.Wrote() {
						if got, err := parseJ(t.Rec.Body.Bytes()); err == nil {
							dup := map[string]bool{}
							for _, it := range aslist(got["orderedItems"]) {
								if id := idOf(it); id != "" {
									if dup[id] {
										s.violate("C20", "duplicates-served", site, fmt.Sprintf("the served inbox page repeats %s", id))
										break
									}
									dup[id] = true
								}
							}
						}
					} else if t.Err != nil && t.Rec.Wrote() {
						s.violate("C20", "error-after-write", site, "an error was returned after the page had been written")
					}
					continue
				}
				if _, ok := want["orderedItems"]; ok {
					if kept == nil {
						kept = []interface{}{}
					}
					want["orderedItems"] = kept
				}
			}
		case "handler":
			raw, ok := res.Before[t.Srv]["https://"+t.Srv+t.Req.Path] // (C20 worlds are always served over https)
			if !ok {
				s.probe("c20-missing-value")
				if srv.Spec.GetMissing == "nil" {
					if !errors.Is(t.Err, pub.ErrNotFound) {
						s.violate("C20", "missing-not-errnotfound", site, fmt.Sprintf("GET of a missing value (database answers nil, nil) returned err=%v, expected ErrNotFound", t.Err))
					}
				} else if t.Err == nil {
					s.violate("C20", "missing-served", site, "GET of a missing value succeeded")
				}
				if t.Rec.Wrote() {
					s.violate("C20", "missing-but-written", site, "something was written for a missing value")
				}
				continue
			}
			if supplied, _ := t.Result.(string); supplied != "" {
				raw = supplied
			}
			want = mustParseJ([]byte(raw))
			stripHiddenDeep(want)
			if typeOf(want) == "Tombstone" {
				wantStatus = 410
				s.probe("c20-tombstone")
			}
		}
		if t.Err != nil {
			s.violate("C20", "get-failed", site, fmt.Sprintf("%s failed: %v", t.EntryKind, t.Err))
			continue
		}
		if t.Rec.Status != wantStatus {
			s.violate("C20", "status", site, fmt.Sprintf("%s answered %d, expected %d", t.EntryKind, t.Rec.Status, wantStatus))
		}
		body := t.Rec.Body.Bytes()
		got, err := parseJ(body)
		if err != nil {
			s.violate("C20", "body-not-json", site, "served body is not a JSON object: "+trunc(string(body), 100))
			continue
		}
		if !sameDocOrdered(got, want) {
			s.violate("C20", "body-not-faithful", site, fmt.Sprintf("served %s; the value supplied (after de-duplication / hidden-recipient removal) is %s", trunc(canonJSON(simplify(got)), 400), trunc(canonJSON(simplify(want)), 400)))
		}
		h := t.Rec.HdrAtWrite
		if h.Get("Content-Type") != ctLD {
			s.violate("C20", "content-type", site, fmt.Sprintf("Content-Type %q", h.Get("Content-Type")))
		}
		sum := sha256.Sum256(body)
		if wantD := "SHA-256=" + base64.StdEncoding.EncodeToString(sum[:]); h.Get("Digest") != wantD {
			s.violate("C20", "digest", site, fmt.Sprintf("Digest %q does not match the %d bytes written (%s)", h.Get("Digest"), len(body), wantD))
		}
		okDate := false
		var renders []string
		for _, rd := range srv.Clock.Reads {
			if rd.Task == t.ID {
				rr := rd.At.UTC().Format("Mon, 02 Jan 2006 15:04:05") + " GMT"
				renders = append(renders, rr)
				if rr == h.Get("Date") {
					okDate = true
				}
			}
		}
		if !okDate {
			s.violate("C20", "date", site, fmt.Sprintf("Date %q is not the RFC 7231 GMT rendering of a value the application clock gave this request (%v)", h.Get("Date"), renders))
		}
		if t.Rec.WriteN != 1 {
			s.violate("C20", "body-writes", site, fmt.Sprintf("%d body writes", t.Rec.WriteN))
		}
	}
}

// sameDocOrdered: equal modulo @context and single-value normalisation; array order matters.
func sameDocOrdered(a, b J) bool { return sameDoc(a, b) }

func init() {
	register(&PropDef{
		ID: "C20", Level: "exploration", Engine: "fedsim",
		Rule: "case = 1-3 requests among GetInbox / GetOutbox / handler GETs and POSTs modifying the boxes being read, in flight together under a seeded schedule, on a server whose inbox/outbox pages hold 0-30 items (IRIs or embedded values, duplicates at arbitrary positions) and which stores a value of a random vocabulary type (54 ActivityStreams + 9 extension types, Tombstone, missing) with bto/bcc on it and on a nested object, with per-run clock base (1970-2033), skew, zone and clock-jump faults; oracle = served body JSON-equal to the value the application handed to that very request (inbox: later duplicates removed, order kept; handler: bto/bcc removed), Content-Type, Date = RFC 7231 rendering of a value the simulated clock returned to that task, Digest = SHA-256 of exactly the bytes written, 410 for Tombstone, ErrNotFound and nothing written for a missing value.",
		QuickCases: 8000, QuickBudgetS: 150, ThoroughBudgetS: 600,
		Drive:  func(c *DriveCtx, r *Rng, k int) { c.Exec(genC20(r, k)) },
		Oracle: oracleC20,
		Assumptions: []string{"the input dimension dominates this property; simulation contributes the clock seam (skew, zones, jumps) and readers concurrent with writers",
			"body equality is JSON equality modulo @context and one-element-array normalisation (C01's business)"},
	})
}

var _ = strings.TrimSpace
