package sim

import (
	"github.com/go-fed/activity/streams"
	"strings"
	"context"
	"fmt"
	"net/http"
	"net/url"

	"github.com/go-fed/activity/pub"
	"github.com/go-fed/activity/streams/vocab"
)

// SimApp is the application stub: CommonBehavior + SocialProtocol; fedProto
// wraps it as FederatingProtocol (the two protocols share a method name).
type SimApp struct {
	s   *Sim
	srv *Server
}

type fedProto struct{ *SimApp }

var _ pub.CommonBehavior = (*SimApp)(nil)
var _ pub.SocialProtocol = (*SimApp)(nil)
var _ pub.FederatingProtocol = fedProto{}

// call: scheduling point + fault draw + monitors for an application call.
func (a *SimApp) call(method string, id string) (*FaultSpec, *Task) {
	if a.s.inAbort() {
		panic(simAbort{})
	}
	msg := a.s.yield(Op{Kind: opCall, Method: "app." + method, Srv: a.srv.Spec.Host, ID: id})
	t := a.s.cur
	a.s.monSeam(t, "app", method, a.srv.Spec.Host)
	return msg.fault, t
}

func (a *SimApp) ev(kind, id string, arg interface{}, res string, fault bool) {
	a.s.logEv(Event{Srv: a.srv.Spec.Host, Kind: "app." + kind, ID: id, Arg: arg, Res: res, Fault: fault})
}

func (a *SimApp) authenticate(method string, c context.Context, w http.ResponseWriter, r *http.Request) (context.Context, bool, error) {
	f, t := a.call(method, "")
	outcome := "ok"
	if t.Req != nil && t.Req.Auth != "" {
		outcome = t.Req.Auth
	}
	if f != nil {
		if f.Kind == "auth_deny" || f.Kind == "deny" {
			outcome = "deny"
		} else {
			outcome = "err"
		}
	}
	switch outcome {
	case "errtrue":
		// a legal shape: when an error is returned the flag is to be ignored
		a.ev(method, "", nil, "err", f != nil)
		return c, true, injectedErr(a.s, f, t.ID+method)
	case "err":
		a.ev(method, "", nil, "err", f != nil)
		return c, false, injectedErr(a.s, f, t.ID+method)
	case "deny":
		if rec, ok := w.(*Recorder); ok {
			rec.inApp = true
			rec.WriteHeader(http.StatusUnauthorized)
			rec.inApp = false
		}
		a.ev(method, "", nil, "deny", f != nil)
		return c, false, nil
	}
	t.authOK = true
	if t.EntryKind != "postInbox" {
		t.blockOK = true
	}
	a.ev(method, "", nil, "ok", false)
	return c, true, nil
}

func (a *SimApp) AuthenticateGetInbox(c context.Context, w http.ResponseWriter, r *http.Request) (context.Context, bool, error) {
	return a.authenticate("AuthenticateGetInbox", c, w, r)
}
func (a *SimApp) AuthenticateGetOutbox(c context.Context, w http.ResponseWriter, r *http.Request) (context.Context, bool, error) {
	return a.authenticate("AuthenticateGetOutbox", c, w, r)
}
func (a *SimApp) AuthenticatePostOutbox(c context.Context, w http.ResponseWriter, r *http.Request) (context.Context, bool, error) {
	return a.authenticate("AuthenticatePostOutbox", c, w, r)
}
func (a fedProto) AuthenticatePostInbox(c context.Context, w http.ResponseWriter, r *http.Request) (context.Context, bool, error) {
	return a.authenticate("AuthenticatePostInbox", c, w, r)
}

func (a *SimApp) page(method string, r *http.Request) (vocab.ActivityStreamsOrderedCollectionPage, error) {
	scheme := a.srv.Spec.Scheme
	if scheme == "" {
		scheme = "https"
	}
	iri := scheme + "://" + r.Host + r.URL.Path
	if r.URL.RawQuery != "" {
		iri += "?" + r.URL.RawQuery
	}
	if f, _ := a.call(method, iri); f != nil {
		a.ev(method, iri, nil, "err", true)
		return nil, errInjected
	}
	b, ok := a.srv.DB.store[iri]
	if !ok {
		a.ev(method, iri, nil, "missing", false)
		return nil, errMissing
	}
	b = a.s.corruptStored(a.srv.DB, "app."+method, iri, b)
	t, err := decodeType(b)
	if err != nil {
		return nil, err
	}
	p, ok := t.(vocab.ActivityStreamsOrderedCollectionPage)
	if !ok {
		return nil, fmt.Errorf("sim: %s is not an OrderedCollectionPage", iri)
	}
	a.ev(method, iri, string(b), "ok", false)
	a.s.cur.Result = string(b)
	return p, nil
}

func (a *SimApp) GetOutbox(c context.Context, r *http.Request) (vocab.ActivityStreamsOrderedCollectionPage, error) {
	return a.page("GetOutbox", r)
}
func (a fedProto) GetInbox(c context.Context, r *http.Request) (vocab.ActivityStreamsOrderedCollectionPage, error) {
	return a.page("GetInbox", r)
}

func (a *SimApp) NewTransport(c context.Context, actorBoxIRI *url.URL, gofedAgent string) (pub.Transport, error) {
	if f, _ := a.call("NewTransport", ustr(actorBoxIRI)); f != nil {
		a.ev("NewTransport", ustr(actorBoxIRI), nil, "err", true)
		return nil, errInjected
	}
	a.ev("NewTransport", ustr(actorBoxIRI), gofedAgent, "", false)
	if a.srv.Spec.Transport == "httpsig" {
		return newRealTransport(a.s, a.srv, ustr(actorBoxIRI)), nil
	}
	return &SimTransport{s: a.s, srv: a.srv, box: ustr(actorBoxIRI)}, nil
}

func (a *SimApp) PostOutboxRequestBodyHook(c context.Context, r *http.Request, data vocab.Type) (context.Context, error) {
	if f, _ := a.call("PostOutboxRequestBodyHook", ""); f != nil {
		a.ev("PostOutboxRequestBodyHook", "", nil, "err", true)
		return c, errInjected
	}
	a.ev("PostOutboxRequestBodyHook", "", nil, "", false)
	return c, nil
}

func (a fedProto) PostInboxRequestBodyHook(c context.Context, r *http.Request, activity pub.Activity) (context.Context, error) {
	if f, _ := a.call("PostInboxRequestBodyHook", ""); f != nil {
		a.ev("PostInboxRequestBodyHook", "", nil, "err", true)
		return c, errInjected
	}
	a.ev("PostInboxRequestBodyHook", "", nil, "", false)
	return c, nil
}

func (a fedProto) Blocked(c context.Context, actorIRIs []*url.URL) (bool, error) {
	var ids []string
	for _, u := range actorIRIs {
		ids = append(ids, ustr(u))
	}
	f, t := a.call("Blocked", "")
	if f != nil {
		if f.Kind == "blocked" || f.Kind == "deny" {
			a.ev("Blocked", "", ids, "true", true)
			return true, nil
		}
		a.ev("Blocked", "", ids, "err", true)
		return false, injectedErr(a.s, f, "blocked")
	}
	for _, b := range a.srv.Spec.Blocked {
		if contains(ids, b) {
			a.ev("Blocked", "", ids, "true", false)
			return true, nil
		}
	}
	t.blockOK = true
	a.ev("Blocked", "", ids, "false", false)
	return false, nil
}

func (a fedProto) MaxInboxForwardingRecursionDepth(c context.Context) int {
	return a.srv.Spec.ForwardDepth
}
func (a fedProto) MaxDeliveryRecursionDepth(c context.Context) int { return a.srv.Spec.DeliverDepth }

func (a fedProto) FilterForwarding(c context.Context, potential []*url.URL, act pub.Activity) ([]*url.URL, error) {
	var ids []string
	for _, u := range potential {
		ids = append(ids, ustr(u))
	}
	if f, _ := a.call("FilterForwarding", typeID(act)); f != nil {
		a.ev("FilterForwarding", typeID(act), ids, "err", true)
		return nil, errInjected
	}
	var out []*url.URL
	switch a.srv.Spec.Filter {
	case "none":
	case "first":
		if len(potential) > 0 {
			out = potential[:1]
		}
	case "dropfirst-inplace":
		// a filter written with the in-place idiom: it reuses (and so overwrites) the slice it was given
		out = potential[:0]
		for i, u := range potential {
			if i != 0 {
				out = append(out, u)
			}
		}
	case "odd":
		for i, u := range potential {
			if i%2 == 1 {
				out = append(out, u)
			}
		}
	case "skip-anon":
		// a filter that looks at what it is given: it leaves out the collection it knows to hold an entry without identity
		for _, u := range potential {
			if !strings.HasSuffix(u.Path, "/c/anon") {
				out = append(out, u)
			}
		}
	default:
		out = potential
	}
	var outIDs []string
	for _, u := range out {
		outIDs = append(outIDs, ustr(u))
	}
	a.ev("FilterForwarding", typeID(act), J{"in": ids, "out": outIDs}, "", false)
	return out, nil
}

// cb is the body of every application activity callback.
func (a *SimApp) cb(proto, mode, typ string, v vocab.Type) error {
	name := proto + "." + mode + "." + typ
	if f, _ := a.call("cb."+name, typeID(v)); f != nil {
		a.ev("cb."+name, typeID(v), nil, "err", true)
		if mode == "default" {
			// the application's default callback may well dispatch through a resolver of its own and fail with the resolver's
			// sentinels: an error all the same
			switch (a.s.Spec.MapSeed >> 7) % 5 {
			case 0:
				return streams.ErrNoCallbackMatch
			case 1:
				return streams.ErrUnhandledType
			}
		}
		return errInjected
	}
	a.ev("cb."+name, typeID(v), nil, "", false)
	return nil
}

func (a *SimApp) DefaultCallback(c context.Context, activity pub.Activity) error {
	return a.cb("soc", "default", activity.GetTypeName(), activity)
}
func (a fedProto) DefaultCallback(c context.Context, activity pub.Activity) error {
	return a.cb("fed", "default", activity.GetTypeName(), activity)
}

func (a *SimApp) SocialCallbacks(c context.Context) (wrapped pub.SocialWrappedCallbacks, other []interface{}, err error) {
	if f, _ := a.call("SocialCallbacks", ""); f != nil {
		a.ev("SocialCallbacks", "", nil, "err", true)
		return wrapped, nil, errInjected
	}
	a.ev("SocialCallbacks", "", nil, "", false)
	m := a.srv.Spec.SocCb
	w := func(typ string) bool { return m[typ] == "wrapped" }
	if w("Create") {
		wrapped.Create = func(c context.Context, v vocab.ActivityStreamsCreate) error { return a.cb("soc", "wrapped", "Create", v) }
	}
	if w("Update") {
		wrapped.Update = func(c context.Context, v vocab.ActivityStreamsUpdate) error { return a.cb("soc", "wrapped", "Update", v) }
	}
	if w("Delete") {
		wrapped.Delete = func(c context.Context, v vocab.ActivityStreamsDelete) error { return a.cb("soc", "wrapped", "Delete", v) }
	}
	if w("Follow") {
		wrapped.Follow = func(c context.Context, v vocab.ActivityStreamsFollow) error { return a.cb("soc", "wrapped", "Follow", v) }
	}
	if w("Add") {
		wrapped.Add = func(c context.Context, v vocab.ActivityStreamsAdd) error { return a.cb("soc", "wrapped", "Add", v) }
	}
	if w("Remove") {
		wrapped.Remove = func(c context.Context, v vocab.ActivityStreamsRemove) error { return a.cb("soc", "wrapped", "Remove", v) }
	}
	if w("Like") {
		wrapped.Like = func(c context.Context, v vocab.ActivityStreamsLike) error { return a.cb("soc", "wrapped", "Like", v) }
	}
	if w("Undo") {
		wrapped.Undo = func(c context.Context, v vocab.ActivityStreamsUndo) error { return a.cb("soc", "wrapped", "Undo", v) }
	}
	if w("Block") {
		wrapped.Block = func(c context.Context, v vocab.ActivityStreamsBlock) error { return a.cb("soc", "wrapped", "Block", v) }
	}
	other = a.others("soc", m)
	return wrapped, other, nil
}

func (a fedProto) FederatingCallbacks(c context.Context) (wrapped pub.FederatingWrappedCallbacks, other []interface{}, err error) {
	if f, _ := a.call("FederatingCallbacks", ""); f != nil {
		a.ev("FederatingCallbacks", "", nil, "err", true)
		return wrapped, nil, errInjected
	}
	a.ev("FederatingCallbacks", "", nil, "", false)
	m := a.srv.Spec.FedCb
	w := func(typ string) bool { return m[typ] == "wrapped" }
	wrapped.OnFollow = pub.OnFollowBehavior(a.srv.Spec.OnFollow)
	if w("Create") {
		wrapped.Create = func(c context.Context, v vocab.ActivityStreamsCreate) error { return a.cb("fed", "wrapped", "Create", v) }
	}
	if w("Update") {
		wrapped.Update = func(c context.Context, v vocab.ActivityStreamsUpdate) error { return a.cb("fed", "wrapped", "Update", v) }
	}
	if w("Delete") {
		wrapped.Delete = func(c context.Context, v vocab.ActivityStreamsDelete) error { return a.cb("fed", "wrapped", "Delete", v) }
	}
	if w("Follow") {
		wrapped.Follow = func(c context.Context, v vocab.ActivityStreamsFollow) error { return a.cb("fed", "wrapped", "Follow", v) }
	}
	if w("Accept") {
		wrapped.Accept = func(c context.Context, v vocab.ActivityStreamsAccept) error { return a.cb("fed", "wrapped", "Accept", v) }
	}
	if w("Reject") {
		wrapped.Reject = func(c context.Context, v vocab.ActivityStreamsReject) error { return a.cb("fed", "wrapped", "Reject", v) }
	}
	if w("Add") {
		wrapped.Add = func(c context.Context, v vocab.ActivityStreamsAdd) error { return a.cb("fed", "wrapped", "Add", v) }
	}
	if w("Remove") {
		wrapped.Remove = func(c context.Context, v vocab.ActivityStreamsRemove) error { return a.cb("fed", "wrapped", "Remove", v) }
	}
	if w("Like") {
		wrapped.Like = func(c context.Context, v vocab.ActivityStreamsLike) error { return a.cb("fed", "wrapped", "Like", v) }
	}
	if w("Announce") {
		wrapped.Announce = func(c context.Context, v vocab.ActivityStreamsAnnounce) error { return a.cb("fed", "wrapped", "Announce", v) }
	}
	if w("Undo") {
		wrapped.Undo = func(c context.Context, v vocab.ActivityStreamsUndo) error { return a.cb("fed", "wrapped", "Undo", v) }
	}
	if w("Block") {
		wrapped.Block = func(c context.Context, v vocab.ActivityStreamsBlock) error { return a.cb("fed", "wrapped", "Block", v) }
	}
	other = a.others("fed", m)
	return wrapped, other, nil
}

// others builds the application's overriding callbacks, in a fixed order.
func (a *SimApp) others(proto string, m map[string]string) []interface{} {
	var out []interface{}
	o := func(typ string) bool { return m[typ] == "other" }
	if o("Create") {
		out = append(out, func(c context.Context, v vocab.ActivityStreamsCreate) error { return a.cb(proto, "other", "Create", v) })
	}
	if o("Update") {
		out = append(out, func(c context.Context, v vocab.ActivityStreamsUpdate) error { return a.cb(proto, "other", "Update", v) })
	}
	if o("Delete") {
		out = append(out, func(c context.Context, v vocab.ActivityStreamsDelete) error { return a.cb(proto, "other", "Delete", v) })
	}
	if o("Follow") {
		out = append(out, func(c context.Context, v vocab.ActivityStreamsFollow) error { return a.cb(proto, "other", "Follow", v) })
	}
	if o("Accept") {
		out = append(out, func(c context.Context, v vocab.ActivityStreamsAccept) error { return a.cb(proto, "other", "Accept", v) })
	}
	if o("Reject") {
		out = append(out, func(c context.Context, v vocab.ActivityStreamsReject) error { return a.cb(proto, "other", "Reject", v) })
	}
	if o("Add") {
		out = append(out, func(c context.Context, v vocab.ActivityStreamsAdd) error { return a.cb(proto, "other", "Add", v) })
	}
	if o("Remove") {
		out = append(out, func(c context.Context, v vocab.ActivityStreamsRemove) error { return a.cb(proto, "other", "Remove", v) })
	}
	if o("Like") {
		out = append(out, func(c context.Context, v vocab.ActivityStreamsLike) error { return a.cb(proto, "other", "Like", v) })
	}
	if o("Announce") {
		out = append(out, func(c context.Context, v vocab.ActivityStreamsAnnounce) error { return a.cb(proto, "other", "Announce", v) })
	}
	if o("Undo") {
		out = append(out, func(c context.Context, v vocab.ActivityStreamsUndo) error { return a.cb(proto, "other", "Undo", v) })
	}
	if o("Block") {
		out = append(out, func(c context.Context, v vocab.ActivityStreamsBlock) error { return a.cb(proto, "other", "Block", v) })
	}
	if o("Listen") {
		out = append(out, func(c context.Context, v vocab.ActivityStreamsListen) error { return a.cb(proto, "other", "Listen", v) })
	}
	// callbacks for types the library has no default behaviour for (they must not disturb the defaults of other types)
	if o("Ignore") {
		out = append(out, func(c context.Context, v vocab.ActivityStreamsIgnore) error { return a.cb(proto, "other", "Ignore", v) })
	}
	if o("Offer") {
		out = append(out, func(c context.Context, v vocab.ActivityStreamsOffer) error { return a.cb(proto, "other", "Offer", v) })
	}
	if o("Activity") {
		out = append(out, func(c context.Context, v vocab.ActivityStreamsActivity) error { return a.cb(proto, "other", "Activity", v) })
	}
	return out
}
