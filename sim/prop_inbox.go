package sim

// Inbox family: C04 (default inbox side effects) and C06 (authority of a federated peer).

import (
	"fmt"
	"sort"
	"strings"
)

// ---- semantic document comparison -----------------------------------------------------

// simplify removes @context and collapses one-element arrays, recursively.
func simplify(v interface{}) interface{} {
	switch x := v.(type) {
	case map[string]interface{}:
		out := map[string]interface{}{}
		for k, e := range x {
			if k == "@context" {
				continue
			}
			out[k] = simplify(e)
		}
		return out
	case []interface{}:
		if len(x) == 1 {
			return simplify(x[0])
		}
		out := make([]interface{}, len(x))
		for i, e := range x {
			out[i] = simplify(e)
		}
		return out
	}
	return v
}

func sameDoc(a, b interface{}) bool { return canonJSON(simplify(normalise(a))) == canonJSON(simplify(normalise(b))) }

func itemsKey(m J) string {
	if strings.HasPrefix(typeOf(m), "Ordered") {
		return "orderedItems"
	}
	return "items"
}

// ---- generator ------------------------------------------------------------------------------

type ibExpect struct {
	Inbox string `json:"inbox"` // actor name whose inbox is used
}

func genInbox(r *Rng, prop string, k int) *RunSpec {
	o := defaultOpt()
	o.OnFollow = r.Intn(3)
	if r.Intn(4) == 0 {
		o.Transport = "queued"
	}
	st := newStd(o)
	a := &st.W.Servers[0]
	n3 := "https://" + hostA + "/n/3"
	// the embedded likes / shares value is any of the four collection kinds
	colOf := func(id, old string) J {
		t := Pick(r, []string{"Collection", "Collection", "OrderedCollection", "CollectionPage", "OrderedCollectionPage"})
		c := J{"type": t, "id": id}
		c[itemsKey(c)] = []string{old}
		return c
	}
	a.Docs = append(a.Docs,
		DocSpec{n3, mustJSON(J{"@context": asCtx, "type": "Note", "id": n3, "content": "three",
			"shares": colOf(n3+"/shares", "https://"+hostR+"/act/olds"),
			"likes":  colOf(n3+"/likes", "https://"+hostR+"/act/oldl")})},
		DocSpec{"https://" + hostA + "/f/2", mustJSON(J{"@context": asCtx, "type": "Follow", "id": "https://" + hostA + "/f/2", "actor": st.Alice.ID, "object": []string{st.Erin, st.Dave}})},
		DocSpec{"https://" + hostA + "/f/3", mustJSON(J{"@context": asCtx, "type": "Follow", "id": "https://" + hostA + "/f/3", "actor": st.Carol.ID, "object": st.Dave})},
		DocSpec{"https://" + hostA + "/f/5", mustJSON(J{"@context": asCtx, "type": "Follow", "id": "https://" + hostA + "/f/5", "actor": []string{st.Alice.ID, st.Carol.ID}, "object": st.Dave})},
		DocSpec{"https://" + hostA + "/f/4", mustJSON(J{"@context": asCtx, "type": "Like", "id": "https://" + hostA + "/f/4", "actor": st.Alice.ID, "object": st.Dave})},
		DocSpec{st.Alice.Followers, mustJSON(J{"@context": asCtx, "type": "Collection", "id": st.Alice.Followers, "items": []string{st.Erin}})},
	)
	// per-type callback mode
	a.FedCb = map[string]string{}
	for _, t := range []string{"Create", "Update", "Delete", "Follow", "Accept", "Reject", "Add", "Remove", "Like", "Announce", "Undo", "Block", "Listen"} {
		switch r.Intn(5) {
		case 0:
			a.FedCb[t] = "wrapped"
		case 1:
			a.FedCb[t] = "other"
		}
	}
	rcol := "https://" + hostR + "/c/x"
	rUndoable := func(id string, actors interface{}) {
		st.W.Remote = append(st.W.Remote, DocSpec{id, mustJSON(J{"@context": asCtx, "type": "Like", "id": id, "actor": actors, "object": st.Note1})})
	}
	st.W.Remote = append(st.W.Remote, DocSpec{rcol, mustJSON(J{"@context": asCtx, "type": "Collection", "id": rcol, "items": []string{st.Erin}})})
	owned := []string{st.Note1, st.Note2, n3}
	foreign := []string{st.RNote, "https://" + hostR + "/n/10", "https://" + hostB + "/n/1"}
	embedActor := func(id string) interface{} {
		if r.Intn(9) == 0 {
			// a Link-derived value with an id of its own: it is identified by its id, not by what it points to
			return J{"type": Pick(r, []string{"Link", "Mention"}), "id": id, "href": "https://" + hostR + "/elsewhere"}
		}
		if r.Intn(3) == 0 {
			return J{"type": "Person", "id": id, "inbox": id + "/inbox"}
		}
		return id
	}
	actorPool := []string{st.Dave, st.Erin, "https://" + hostR + "/u/fay"}
	st.W.Remote = append(st.W.Remote, DocSpec{actorPool[2], mustJSON(remoteActor("fay"))})
	if r.Intn(4) == 0 {
		// an actor whose IRI differs from dave's only in the letter case of its path: another IRI, another actor
		dv := caseVariant(st.Dave)
		d := remoteActor("dave")
		d["id"] = dv
		st.W.Remote = append(st.W.Remote, DocSpec{dv, mustJSON(d)})
		actorPool[r.Intn(3)] = dv
	}
	if r.Intn(5) == 0 {
		// a peer whose actor id points into its profile document (WebID style)
		fv := "https://" + hostR + "/profile/card#me"
		d := remoteActor("me")
		d["id"] = fv
		st.W.Remote = append(st.W.Remote, DocSpec{fv, mustJSON(d)})
		actorPool[r.Intn(3)] = fv
	}
	// 1..3 actors
	var actors []interface{}
	p := r.Perm(3)
	for i, n := 0, 1+r.Intn(3)/2+r.Intn(2)*r.Intn(2); i < n && i < 3; i++ {
		actors = append(actors, embedActor(actorPool[p[i]]))
	}
	if r.Intn(6) == 0 {
		// the same actor named twice (as IRI, or once embedded): a list, but still one actor
		again := idOf(actors[r.Intn(len(actors))])
		if r.Bool() {
			actors = append(actors, again)
		} else {
			actors = append(actors, J{"type": "Person", "id": again})
		}
	}
	if r.Intn(10) == 0 {
		// an embedded actor of a type no vocabulary knows: it cannot be interpreted, so the activity cannot be authorized
		robot := J{"type": "ext:Robot", "id": Pick(r, actorPool), "name": "unit"}
		if r.Bool() {
			actors = append(actors, robot)
		} else {
			actors = append([]interface{}{robot}, actors...)
		}
	}
	actorIDs := idsOf(actors)
	var f J
	typ := Pick(r, []string{"Create", "Update", "Delete", "Follow", "Accept", "Reject", "Add", "Remove", "Like", "Announce", "Undo", "Block", "Listen"})
	if prop == "C06" {
		typ = Pick(r, []string{"Update", "Delete", "Accept", "Undo", "Update", "Delete", "Accept", "Undo", "Like", "Follow"})
	}
	actHost := hostR
	mkNote := func(host string, i int) J {
		return J{"type": "Note", "id": fmt.Sprintf("https://%s/n/%d", host, 20+i), "attributedTo": st.Dave, "content": fmt.Sprint("v", i)}
	}
	hostVariant := func() string {
		switch r.Intn(9) {
		case 8:
			return hostR + ":443" // the scheme's default port written out: still another host string
		case 0:
			return hostR + ":8443"
		case 1:
			return "sub." + hostR
		case 2:
			return "R.example"
		case 3:
			return hostB
		}
		return hostR
	}
	switch typ {
	case "Create":
		var objs []interface{}
		for i, n := 0, 1+r.Intn(3); i < n; i++ {
			if r.Intn(3) == 0 {
				id := fmt.Sprintf("https://%s/n/%d", hostR, 30+i)
				if r.Intn(4) == 0 {
					st.W.Fate = map[string]string{id: Pick(r, []string{"unreachable", "nonjson"})}
				}
				fd := J{"@context": asCtx, "type": "Note", "id": id, "content": fmt.Sprint("fetched ", i)}
				for _, m := range []string{"summary", "name", "inReplyTo", "sensitive-x"} {
					if r.Intn(3) == 0 { // documents differ in which members they have
						fd[m] = "https://" + hostR + "/m/" + m + fmt.Sprint(i)
					}
				}
				st.W.Remote = append(st.W.Remote, DocSpec{id, mustJSON(fd)})
				objs = append(objs, id)
			} else {
				objs = append(objs, mkNote(hostR, i))
			}
		}
		f = J{"object": objs, "to": st.Alice.ID}
	case "Update", "Delete":
		var objs []interface{}
		for i, n := 0, 1+r.Intn(3); i < n; i++ {
			h := hostR
			if r.Intn(3) == 0 {
				h = hostVariant()
			}
			nt := mkNote(h, i)
			// some of the objects exist already (federated copies)
			if r.Bool() {
				a.Docs = append(a.Docs, DocSpec{nt["id"].(string), mustJSON(J{"@context": asCtx, "type": "Note", "id": nt["id"], "content": "old", "summary": "kept?"})})
			}
			if r.Intn(8) == 0 {
				objs = append(objs, J{"type": "Mention", "id": nt["id"], "href": fmt.Sprintf("https://%s/n/%d", actHost, 90+i)})
			} else if typ == "Delete" && r.Bool() {
				objs = append(objs, nt["id"])
			} else if typ == "Update" && r.Intn(6) == 0 {
				objs = append(objs, nt["id"])
			} else {
				objs = append(objs, nt)
			}
		}
		if r.Intn(5) == 0 {
			actHost = hostVariant()
		}
		f = J{"object": objs}
	case "Follow":
		if len(actors) == 1 && r.Bool() {
			// several peers follow in one activity
			for _, p := range actorPool {
				if p != idOf(actors[0]) && r.Bool() {
					actors = append(actors, p)
				}
			}
			actorIDs = idsOf(actors)
		}
		objs := []interface{}{st.Alice.ID}
		switch r.Intn(4) {
		case 0:
			objs = []interface{}{st.Carol.ID}
		case 1:
			objs = []interface{}{st.Dave, embedActor(st.Alice.ID)}
		}
		if len(actorIDs) >= 2 && r.Intn(3) == 0 {
			// one of the followers cannot be fetched right now: the answer still goes to the others
			if st.W.Fate == nil {
				st.W.Fate = map[string]string{}
			}
			who := actorIDs[len(actorIDs)-1]
			if r.Intn(3) == 0 {
				who = actorIDs[r.Intn(len(actorIDs))]
			}
			st.W.Fate[who] = Pick(r, []string{"unreachable", "nonjson", "trailing", "unknowntype"})
		}
		if len(actorIDs) >= 2 && r.Bool() {
			// several followers, answered automatically; the application knows the inbox of some of them already
			objs = []interface{}{st.Alice.ID}
			a.OnFollow = 1 + r.Intn(2)
			if d, ok := st.W.remoteDoc(actorIDs[0]); ok {
				a.StoredInbox = map[string]string{actorIDs[0]: idOf(d["inbox"])}
			}
		}
		switch r.Intn(6) {
		case 2:
			if r.Bool() {
				// another actor of this server whose IRI differs from the inbox owner's only past the path (servers that
				// tell their actors apart by query string), or only in a trailing slash: a different IRI is a different actor
				objs = []interface{}{st.Alice.ID + Pick(r, []string{"?name=bailey", "#main-key", "/", "?"})}
			}
		}
		f = J{"object": objs}
	case "Accept", "Reject":
		fid := Pick(r, []string{st.Follow1, "https://" + hostA + "/f/2", "https://" + hostA + "/f/3", "https://" + hostA + "/f/4", "https://" + hostA + "/f/none", "https://" + hostA + "/f/5"})
		if r.Intn(5) == 0 {
			// the Accept comes from (or is co-signed by) somebody who is on the Follow as one who follows, not as one who is followed
			who := Pick(r, []string{st.Alice.ID, st.Carol.ID})
			if r.Bool() {
				actors = append(actors, who)
			} else {
				actors = []interface{}{who}
			}
			actorIDs = idsOf(actors)
		}
		claimed := J{"type": "Follow", "id": fid, "actor": Pick(r, []string{st.Alice.ID, st.Alice.ID, st.Carol.ID, caseVariant(st.Alice.ID)}), "object": actorIDs}
		if r.Intn(3) == 0 {
			// an Accept that is in order: dave accepts the Follow alice really sent him
			actors, actorIDs = []interface{}{st.Dave}, []string{st.Dave}
			fid = st.Follow1
			claimed = J{"type": "Follow", "id": fid, "actor": st.Alice.ID, "object": st.Dave}
		}
		var obj interface{} = claimed
		if r.Intn(3) == 0 {
			obj = fid // by IRI: served by a.example's own handler
		}
		objs := []interface{}{obj}
		if r.Intn(4) == 0 {
			objs = append([]interface{}{mkNote(hostR, 9)}, objs...)
		}
		if r.Intn(4) == 0 {
			// the Accept answers several Follows at once; somebody else's comes first
			other := J{"type": "Follow", "id": "https://" + hostA + "/f/3", "actor": Pick(r, []string{st.Carol.ID, st.Alice.ID}), "object": actorIDs} // (the stored f/3 is carol's, whatever the peer's copy claims)
			if r.Bool() {
				other = J{"type": "Follow", "id": "https://" + hostR + "/f/77", "actor": "https://" + hostR + "/u/zed", "object": actorIDs}
			}
			objs = append([]interface{}{other}, objs...)
		}
		f = J{"object": objs}
	case "Add", "Remove":
		var objs, tgts []interface{}
		for i, n := 0, 1+r.Intn(3); i < n; i++ {
			if typ == "Remove" {
				objs = append(objs, Pick(r, []string{st.Dave, st.Erin, st.RNote}))
			} else {
				objs = append(objs, fmt.Sprintf("https://%s/n/%d", hostR, 40+i))
			}
		}
		tp := r.Perm(4)
		pool := []string{st.Col1, st.OCol1, rcol, st.Alice.Followers}
		for i, n := 0, 1+r.Intn(3); i < n; i++ {
			tgts = append(tgts, pool[tp[i]])
		}
		f = J{"object": objs, "target": tgts}
	case "Like", "Announce":
		var objs []interface{}
		pool := append(append([]string{}, owned...), foreign...)
		pp := r.Perm(len(pool))
		for i, n := 0, 1+r.Intn(3); i < n; i++ {
			id := pool[pp[i]]
			if r.Intn(4) == 0 {
				objs = append(objs, J{"type": "Note", "id": id})
			} else {
				objs = append(objs, id)
			}
		}
		f = J{"object": objs}
	case "Undo":
		var objs []interface{}
		for i, n := 0, 1+r.Intn(2); i < n; i++ {
			id := fmt.Sprintf("https://%s/act/undoable%d", hostR, i)
			var who []string
			switch r.Intn(4) {
			case 0: // equal
				who = actorIDs
			case 1: // subset
				who = actorIDs[:1]
			case 2: // superset
				who = append(append([]string{}, actorIDs...), "https://"+hostR+"/u/zed")
				if r.Bool() {
					// ... by an actor whose id shares the document of an Undo actor and differs in the fragment only
					who = append(append([]string{}, actorIDs...), strings.SplitN(actorIDs[0], "#", 2)[0]+"#other-key")
				}
			default: // disjoint
				who = []string{"https://" + hostR + "/u/zed"}
			}
			rUndoable(id, who)
			if r.Intn(6) == 0 {
				if st.W.Fate == nil {
					st.W.Fate = map[string]string{}
				}
				st.W.Fate[id] = "unreachable"
			}
			if r.Intn(3) == 0 {
				objs = append(objs, J{"type": "Like", "id": id, "actor": actorIDs}) // what the peer claims
			} else {
				objs = append(objs, id)
			}
		}
		f = J{"object": objs}
	case "Block":
		f = J{"object": st.Alice.ID}
	default:
		f = J{"object": st.RNote}
	}
	st.n++
	body := J{"@context": asCtx, "type": typ, "id": fmt.Sprintf("https://%s/act/%s%d", actHost, typ, st.n), "actor": actors}
	if len(actors) == 1 && r.Bool() {
		body["actor"] = actors[0]
	}
	for k2, v := range f {
		body[k2] = v
	}
	// blocked actors
	if r.Intn(5) == 0 {
		a.Blocked = []string{Pick(r, actorPool)}
	}
	// the application already knows the inbox of some of the peers (InboxForActor answers for them, the others are fetched)
	if r.Intn(3) == 0 {
		a.StoredInbox = map[string]string{}
		for _, p := range actorPool {
			if d, ok := st.W.remoteDoc(p); ok && r.Bool() {
				a.StoredInbox[p] = idOf(d["inbox"])
			}
		}
	}
	box := st.Alice
	sp := mk(prop, st, inboxReq("r0", box, hostA, body))
	sp.Gen = fmt.Sprintf("inbox/%s/%d/%s", prop, k, typ)
	sp.MapSeed = r.U64() | 1
	sp.Expect = mustJSON(ibExpect{Inbox: "alice"})
	return sp
}

// ---- reference model ----------------------------------------------------------------------------

type ibModel struct {
	fail      bool   // the request must not succeed with 200
	either    bool   // statement is silent: both outcomes accepted, but a failure must change nothing
	why       string
	store     map[string]J // expected final documents of server a (only touched ids)
	deleted   map[string]bool
	followers []string // ids added to followers(me)
	following []string
	front     map[string]string   // object id -> activity id expected at front of likes / shares
	frontKey  string              // "likes" | "shares"
	targetAdd map[string][]string // collection id -> ids appended
	targetRem map[string][]string
	wire      string // "" | "Accept" | "Reject"
	wireTo    []string
	cbs       []string // expected callback names, in order
	noDefault bool     // 'other' replaces the default entirely
	blocked   bool
	blockArg  []string
	actorUnusable bool // an embedded actor that cannot be interpreted: the request may be refused before the block check, never authorized without that actor being checked
}

func knownTypeName(t string) bool {
	for _, x := range asTypes {
		if x == t {
			return true
		}
	}
	_, ok := extTypes[t]
	return ok
}

func sameHost(a, b string) (same bool, caseOnly bool) {
	if a == b {
		return true, false
	}
	if strings.EqualFold(a, b) {
		return false, true
	}
	return false, false
}

func buildInboxModel(res *Result, body J, me *ActorDir, srv *ServerSpec) *ibModel {
	m := &ibModel{store: map[string]J{}, deleted: map[string]bool{}, front: map[string]string{}, targetAdd: map[string][]string{}, targetRem: map[string][]string{}}
	typ := typeOf(body)
	before := res.Before[srv.Host]
	ownedBy := func(id string) bool { _, ok := before[id]; return ok && hostOf(id) == srv.Host }
	objs := aslist(body["object"])
	m.blockArg = idsOf(body["actor"])
	for _, a := range aslist(body["actor"]) {
		if am, ok := a.(map[string]interface{}); ok {
			if ts, _ := am["type"].(string); ts != "" && !knownTypeName(ts) {
				m.actorUnusable = true
			}
		}
	}
	for _, b := range srv.Blocked {
		if contains(m.blockArg, b) {
			m.blocked = true
		}
	}
	if m.blocked {
		m.fail = true
		m.why = "an actor is blocked"
		return m
	}
	mode := srv.FedCb[typ]
	known := map[string]bool{"Create": true, "Update": true, "Delete": true, "Follow": true, "Accept": true, "Reject": true, "Add": true, "Remove": true, "Like": true, "Announce": true, "Undo": true, "Block": true}
	if mode == "other" {
		m.noDefault = true
		m.cbs = []string{"fed.other." + typ}
		return m
	}
	if !known[typ] {
		m.cbs = []string{"fed.default." + typ}
		return m
	}
	if mode == "wrapped" {
		m.cbs = []string{"fed.wrapped." + typ}
	}
	originOK := func() {
		ah := hostOf(idOf(body))
		for _, o := range objs {
			same, caseOnly := sameHost(ah, hostOf(idOf(o)))
			if caseOnly {
				m.either = true
			} else if !same {
				m.fail = true
				m.why = fmt.Sprintf("object host %s differs from activity host %s", hostOf(idOf(o)), ah)
			}
		}
	}
	switch typ {
	case "Create":
		for _, o := range objs {
			if om, ok := o.(map[string]interface{}); ok {
				m.store[idOf(om)] = om
			} else {
				d, fate := docFor(res, idOf(o))
				if fate != "ok" {
					m.fail = true
					m.why = "an object given by IRI cannot be fetched"
					m.either = false
					break
				}
				m.store[idOf(o)] = d
			}
		}
	case "Update":
		originOK()
		for _, o := range objs {
			if om, ok := o.(map[string]interface{}); ok {
				m.store[idOf(om)] = om
			} else {
				m.fail = true
				m.why = "Update with an object given by IRI only"
			}
		}
	case "Delete":
		originOK()
		for _, o := range objs {
			m.deleted[idOf(o)] = true
		}
	case "Follow":
		isMe := contains(idsOf(body["object"]), me.ID)
		if isMe && srv.OnFollow == 1 {
			m.followers = idsOf(body["actor"])
			m.wire, m.wireTo = "Accept", idsOf(body["actor"])
		} else if isMe && srv.OnFollow == 2 {
			m.wire, m.wireTo = "Reject", idsOf(body["actor"])
		}
	case "Accept":
		// the first object that is a Follow naming me as actor decides
		for _, o := range objs {
			var claimed J
			if om, ok := o.(map[string]interface{}); ok {
				claimed = om
			} else {
				d, fate := docFor(res, idOf(o))
				if fate != "ok" {
					m.fail = true
					m.why = "the object of the Accept cannot be fetched"
					return m
				}
				claimed = d
			}
			if typeOf(claimed) != "Follow" {
				continue
			}
			if !contains(idsOf(claimed["actor"]), me.ID) {
				continue
			}
			storedRaw, ok := before[idOf(claimed)]
			if !ok {
				m.fail = true
				m.why = "the referenced Follow is not stored locally"
				return m
			}
			stored := mustParseJ([]byte(storedRaw))
			if typeOf(stored) != "Follow" || !contains(idsOf(stored["actor"]), me.ID) {
				m.fail = true
				m.why = "the stored value is not a Follow by the local actor"
				return m
			}
			for _, aa := range idsOf(body["actor"]) {
				if !contains(idsOf(stored["object"]), aa) {
					m.fail = true
					m.why = "an accepting actor is not an object of the stored Follow"
					return m
				}
			}
			m.following = idsOf(body["actor"])
			break
		}
	case "Add", "Remove":
		for _, t := range idsOf(body["target"]) {
			if !ownedBy(t) {
				continue
			}
			if !isCollType(typeOf(mustParseJ([]byte(before[t])))) {
				m.fail = true
				m.why = "an owned target is not a collection" // targets listed before it may already have been changed
				break
			}
			if typ == "Add" {
				m.targetAdd[t] = append(m.targetAdd[t], idsOf(body["object"])...)
			} else {
				m.targetRem[t] = append(m.targetRem[t], idsOf(body["object"])...)
			}
		}
	case "Like", "Announce":
		m.frontKey = "likes"
		if typ == "Announce" {
			m.frontKey = "shares"
		}
		for _, o := range idsOf(body["object"]) {
			if ownedBy(o) {
				m.front[o] = idOf(body)
			}
		}
	case "Undo":
		want := setOf(idsOf(body["actor"]))
		for _, o := range objs {
			d, fate := docFor(res, idOf(o))
			if fate != "ok" {
				m.fail = true
				m.why = "an undone activity cannot be fetched"
				break
			}
			for _, aa := range idsOf(d["actor"]) {
				if !want[aa] {
					m.fail = true
					m.why = "actor " + aa + " of the undone activity is not an actor of the Undo"
				}
			}
		}
	}
	if m.fail {
		m.cbs = nil
	}
	return m
}

// ---- oracle -------------------------------------------------------------------------------------------

func collIDs(raw string, sub string) []string {
	m, err := parseJ([]byte(raw))
	if err != nil {
		return nil
	}
	if sub != "" {
		em, _ := m[sub].(map[string]interface{})
		if em == nil {
			return nil
		}
		m = em
	}
	if v, ok := m["orderedItems"]; ok {
		return idsOf(v)
	}
	return idsOf(m["items"])
}

func multisetEq(a, b []string) bool {
	x, y := append([]string(nil), a...), append([]string(nil), b...)
	sort.Strings(x)
	sort.Strings(y)
	return equalStrs(x, y)
}

func oracleInbox(c *DriveCtx, res *Result) {
	if res.Spec.Expect == nil {
		return
	}
	// a history: every top-level inbox POST is judged against the database as it was when that request started
	var hist []*Task
	for _, t := range res.Tasks {
		if t.Parent == nil && t.EntryKind == "postInbox" && t.done && t.Snap != nil {
			hist = append(hist, t)
		}
	}
	sort.Slice(hist, func(i, j int) bool { return hist[i].StartSeq < hist[j].StartSeq })
	for i, t := range hist {
		if i > 0 && hist[i-1].EndSeq > t.StartSeq {
			return // overlapping requests: not a history (C08's business)
		}
	}
	saveB, saveA := res.Before, res.After
	defer func() { res.Before, res.After = saveB, saveA }()
	for i, t := range hist {
		b := map[string]map[string]string{}
		a := map[string]map[string]string{}
		for h, v := range saveB {
			b[h], a[h] = v, saveA[h]
		}
		b[t.Srv] = t.Snap
		if i+1 < len(hist) && hist[i+1].Srv == t.Srv {
			a[t.Srv] = hist[i+1].Snap
		}
		res.Before, res.After = b, a
		res.faultedDeref, res.faultTask = nil, t.ID
		oracleInboxOne(c, res, t)
		res.faultedDeref, res.faultTask = nil, ""
	}
}

func oracleInboxOne(c *DriveCtx, res *Result, t *Task) {
	s := res.Sim
	if taskFaulted(res, t) {
		// fault class: a request that still answers 200 although a seam call failed (or its context was cancelled) must have
		// done everything it owed (a swallowed error shows up as a missing effect); a request that fails may have done a prefix
		if t.Err != nil || t.Rec == nil || t.Rec.Status != 200 {
			return
		}
		s.probe("inbox-200-despite-fault")
	}
	if t.Panic != nil {
		return
	}
	srv := s.World.Servers[t.Srv]
	me := srv.actorByName(t.Req.Actor)
	body, err := parseJ(t.Req.Body)
	if err != nil {
		return
	}
	typ := typeOf(body)
	m := buildInboxModel(res, body, me, srv.Spec)
	before, after := res.Before[t.Srv], res.After[t.Srv]
	ok200 := t.Err == nil && t.Rec.Status == 200
	site := typ
	// ---- C06: block check argument, before any side effect
	var blockedEv *Event
	firstSide := -1
	for i := range s.Log {
		e := &s.Log[i]
		if e.Task != t.ID {
			continue
		}
		if e.Kind == "app.Blocked" && blockedEv == nil {
			blockedEv = e
		}
		if firstSide < 0 && (strings.HasPrefix(e.Kind, "db.") || strings.HasPrefix(e.Kind, "tp.") || strings.HasPrefix(e.Kind, "app.cb.") || e.Kind == "app.FilterForwarding") {
			firstSide = e.Seq
		}
	}
	if blockedEv == nil && m.actorUnusable {
		if ok200 || firstSide >= 0 {
			s.violate("C06", "uninterpretable-actor-accepted", site, fmt.Sprintf("an actor that cannot be interpreted was neither checked nor refused: status %d err=%v, first side effect at %d", t.Rec.Status, t.Err, firstSide))
		}
		return
	} else if blockedEv == nil {
		s.violate("C06", "block-check-missing", site, "the application's block check was never asked")
	} else {
		arg, _ := normalise(blockedEv.Arg).([]interface{})
		var got []string
		for _, x := range arg {
			got = append(got, fmt.Sprint(x))
		}
		if !sameSet(got, m.blockArg) {
			s.violate("C06", "block-check-argument", "AuthorizePostInbox", fmt.Sprintf("Blocked was asked about %v; the activity's actors are %v", got, m.blockArg))
		}
		if firstSide >= 0 && firstSide < blockedEv.Seq {
			s.violate("C06", "side-effect-before-block-check", site, "a side effect preceded the block check")
		}
	}
	if m.blocked {
		if t.Err != nil || t.Rec.Status != 403 {
			s.violate("C06", "blocked-not-rejected", site, fmt.Sprintf("a blocked actor's activity ended with status %d err=%v", t.Rec.Status, t.Err))
		}
	}
	// ---- store delta of server a
	changed := map[string]bool{}
	for id, v := range after {
		if before[id] != v {
			changed[id] = true
		}
	}
	for id := range before {
		if _, ok := after[id]; !ok {
			changed[id] = true
		}
	}
	delete(changed, me.Inbox)
	actID := idOf(body)
	seenOnly := changed[actID] && before[actID] == ""
	if seenOnly {
		delete(changed, actID) // the "seen" record of inbox forwarding (may be overwritten below if the model stores that id itself)
	}
	prop := "C04"
	if m.fail || m.either {
		prop = "C06"
		if typ == "Create" || m.why == "Update with an object given by IRI only" || m.why == "an owned target is not a collection" {
			prop = "C04"
		}
	}
	if m.fail && !m.either {
		s.probe("inbox-must-refuse:" + typ)
		if ok200 {
			s.violate(prop, "unauthorised-applied", site, fmt.Sprintf("%s must be refused (%s) but was answered 200", typ, m.why))
		}
		if len(changed) > 0 && prop != "C04" { // a Create/Update may have stored the objects preceding the one that could not be fetched / was not embedded
			s.violate(prop, "unauthorised-changed-data", site, fmt.Sprintf("%s must be refused (%s) yet stored data changed: %v", typ, m.why, sortedKeys(changed)))
		}
		return
	}
	if !ok200 {
		if len(changed) > 0 && m.either {
			s.violate(prop, "refused-but-changed-data", site, fmt.Sprintf("the request failed yet stored data changed: %v", sortedKeys(changed)))
		}
		if !m.either && !m.blocked {
			if nestedFailure(res, t) {
				return // a peer's refusal of the automatic Accept/Reject surfaced; not this property's business
			}
			s.violate("C04", "valid-activity-refused", site, fmt.Sprintf("%s expected to be applied, ended with status %d err=%v", typ, t.Rec.Status, t.Err))
		}
		return
	}
	if ids := collIDs(after[me.Inbox], ""); len(ids) == 0 || ids[0] != actID {
		s.violate("C04", "inbox-entry-missing", site, fmt.Sprintf("the activity was answered 200 but the inbox starts with %v, not with %s", ids, actID))
	}
	// ---- accepted: expected effects, nothing else
	s.probe("inbox-applied:" + typ)
	if m.noDefault {
		s.probe("inbox-other-callback")
	}
	if m.wire != "" {
		s.probe("inbox-auto-" + m.wire)
	}
	if m.either {
		s.probe("inbox-host-case-only")
	}
	expectChanged := map[string]bool{}
	for id, want := range m.store {
		expectChanged[id] = true
		raw, ok := after[id]
		if !ok {
			s.violate("C04", "object-not-stored", site, fmt.Sprintf("%s: object %s is not in the database afterwards", typ, id))
			continue
		}
		got := mustParseJ([]byte(raw))
		if !sameDoc(got, want) {
			s.violate("C04", "object-stored-differs", site, fmt.Sprintf("%s: stored %s is %s, expected %s", typ, id, trunc(canonJSON(simplify(got)), 300), trunc(canonJSON(simplify(normalise(want))), 300)))
		}
	}
	for id := range m.deleted {
		expectChanged[id] = true
		if _, ok := after[id]; ok {
			s.violate("C04", "object-not-deleted", site, fmt.Sprintf("Delete: %s is still stored", id))
		}
	}
	checkColl := func(what, id, sub string, added []string, asSet bool) {
		expectChanged[id] = true
		old, now := collIDs(before[id], sub), collIDs(after[id], sub)
		if asSet {
			if !sameSet(now, append(append([]string{}, old...), added...)) {
				s.violate("C04", what, site, fmt.Sprintf("%s holds %v; expected %v plus %v", id, now, old, added))
			}
			return
		}
		if !multisetEq(now, append(append([]string{}, old...), added...)) {
			s.violate("C04", what, site, fmt.Sprintf("%s holds %v; expected %v plus %v", id, now, old, added))
		}
	}
	if len(m.followers) > 0 {
		checkColl("followers", me.Followers, "", m.followers, true)
	}
	if len(m.following) > 0 {
		checkColl("following", me.Following, "", m.following, true)
	}
	for _, tid := range sortedKeys(m.targetAdd) {
		checkColl("add-target", tid, "", m.targetAdd[tid], false)
	}
	for _, tid := range sortedKeys(m.targetRem) {
		expectChanged[tid] = true
		rm := setOf(m.targetRem[tid])
		var want []string
		for _, x := range collIDs(before[tid], "") {
			if !rm[x] {
				want = append(want, x)
			}
		}
		if now := collIDs(after[tid], ""); !multisetEq(now, want) {
			s.violate("C04", "remove-target", site, fmt.Sprintf("%s holds %v; expected %v", tid, now, want))
		}
	}
	for _, oid := range sortedKeys(m.front) {
		expectChanged[oid] = true
		old, now := collIDs(before[oid], m.frontKey), collIDs(after[oid], m.frontKey)
		want := append([]string{m.front[oid]}, old...)
		if !equalStrs(now, want) {
			s.violate("C04", m.frontKey+"-front", site, fmt.Sprintf("%s of %s is %v; expected the activity id at the front: %v", m.frontKey, oid, now, want))
		}
		// the rest of the object is untouched
		b, a2 := mustParseJ([]byte(before[oid])), mustParseJ([]byte(after[oid]))
		delete(b, m.frontKey)
		delete(a2, m.frontKey)
		if !sameDoc(b, a2) {
			s.violate("C04", "object-altered", site, fmt.Sprintf("%s changed beyond its %s collection", oid, m.frontKey))
		}
	}
	for _, id := range sortedKeys(changed) {
		if expectChanged[id] {
			continue
		}
		if before[id] != "" && sameDoc(mustParseJ([]byte(before[id])), mustParseJ([]byte(after[id]))) {
			continue // re-serialised, same content
		}
		inv := "unexpected-change"
		if hostOf(id) != t.Srv {
			inv = "modified-data-not-owned"
		}
		if m.noDefault {
			inv = "other-callback-did-not-replace-default"
		}
		s.violate("C04", inv, site, fmt.Sprintf("%s (%s mode %q): %s changed although the documented effects do not touch it", typ, typ, srv.Spec.FedCb[typ], id))
	}
	// ---- wire: automatic Accept / Reject
	var autos []WireMsg
	for _, wm := range s.World.Wire {
		if wm.Task == t.ID && wm.Box == me.Outbox {
			autos = append(autos, wm)
		}
	}
	if m.wire == "" {
		if len(autos) > 0 {
			s.violate("C04", "unexpected-delivery", site, fmt.Sprintf("%s caused a delivery from the outbox: %s", typ, trunc(autos[0].Payload, 200)))
		}
	} else if len(autos) != 1 {
		s.violate("C04", "auto-response-count", site, fmt.Sprintf("expected one automatic %s, saw %d deliveries", m.wire, len(autos)))
	} else {
		pm, _ := parseJ([]byte(autos[0].Payload))
		fresh := false
		for _, e := range s.Log {
			if e.Task == t.ID && e.Kind == "db.NewID" && e.Res == idOf(pm) {
				fresh = true
			}
		}
		var objID string
		if os := aslist(pm["object"]); len(os) == 1 {
			objID = idOf(os[0])
		}
		if typeOf(pm) != m.wire || !fresh || idOf(pm) == actID || !sameSet(idsOf(pm["actor"]), []string{me.ID}) || objID != actID || !sameSet(idsOf(pm["to"]), m.wireTo) {
			s.violate("C04", "auto-response-shape", site, fmt.Sprintf("automatic response is %s; expected a freshly identified %s from %s with object %s addressed to %v", trunc(autos[0].Payload, 400), m.wire, me.ID, actID, m.wireTo))
		}
		var wantIn []string
		for _, aID := range m.wireTo {
			if in, known := srv.Spec.StoredInbox[aID]; known {
				wantIn = append(wantIn, in) // the application knows this inbox: nothing is fetched for it
			} else if d, fate := docFor(res, aID); fate == "ok" {
				wantIn = append(wantIn, idOf(d["inbox"]))
			}
		}
		// an actor named twice is fetched twice; an injected failure hits one of the two fetches and the other answer is as good
		wantLenient := append([]string(nil), wantIn...)
		for _, aID := range m.wireTo {
			if _, fate := docFor(res, aID); fate != "ok" && res.faultedDeref[aID] {
				for _, d := range s.World.Derefs {
					if d.Task == t.ID && d.IRI == aID && d.Res == "ok" {
						if doc, ok := res.Spec.World.remoteDoc(aID); ok {
							wantLenient = append(wantLenient, idOf(doc["inbox"]))
						}
						break
					}
				}
			}
		}
		if !sameSet(autos[0].Recipients, wantIn) && !sameSet(autos[0].Recipients, wantLenient) {
			s.violate("C04", "auto-response-recipients", site, fmt.Sprintf("automatic %s delivered to %v; the follow actors' inboxes are %v", m.wire, autos[0].Recipients, wantIn))
		}
	}
	// ---- callbacks: which ones, and after the default effect
	var cbs []Event
	lastWrite := -1
	for _, e := range s.Log {
		if e.Task != t.ID {
			continue
		}
		if strings.HasPrefix(e.Kind, "app.cb.") {
			cbs = append(cbs, e)
		}
		switch e.Kind {
		case "db.Create", "db.Update", "db.Delete":
			if e.ID != actID || m.store[actID] != nil {
				lastWrite = e.Seq
			}
		case "tp.BatchDeliver":
			if m.wire != "" && lastWrite < e.Seq {
				// the automatic response belongs to the default effect
				isAuto := false
				for _, wm := range autos {
					if wm.Seq == e.Seq || wm.Seq == e.Seq-0 {
						isAuto = true
					}
				}
				if isAuto {
					lastWrite = e.Seq
				}
			}
		}
	}
	var names []string
	for _, e := range cbs {
		names = append(names, strings.TrimPrefix(e.Kind, "app.cb."))
	}
	if !equalStrs(names, m.cbs) {
		s.violate("C04", "callbacks", site, fmt.Sprintf("application callbacks invoked %v; expected %v (mode %q)", names, m.cbs, srv.Spec.FedCb[typ]))
	}
	for _, e := range cbs {
		if strings.Contains(e.Kind, ".wrapped.") {
			// the seen record is written later by InboxForwarding; only default-effect writes count
			for _, w := range s.Log {
				if w.Task == t.ID && w.Seq > e.Seq && (w.Kind == "db.Update" || w.Kind == "db.Delete" || (w.Kind == "db.Create" && w.ID != actID)) {
					s.violate("C04", "wrapped-callback-before-default", site, fmt.Sprintf("the wrapped %s callback ran at event %d, before the default effect's write at %d", typ, e.Seq, w.Seq))
					break
				}
			}
		}
	}
}

// genInboxHistory: two activities of one kind, one after the other (state carried between requests would show).
func genInboxHistory(r *Rng, k int) *RunSpec {
	sp := genInbox(r, "C04", k)
	st := newStd(defaultOpt())
	first, _ := parseJ(sp.Requests[0].Body)
	typ := Pick(r, []string{"Add", "Remove", "Remove", "Like", "Announce", "Follow", "Follow"})
	mkBody := func(i int) J {
		b := J{"@context": asCtx, "type": typ, "id": fmt.Sprintf("https://%s/act/h%d-%d", hostR, k, i), "actor": st.Dave}
		switch typ {
		case "Add":
			b["object"] = fmt.Sprintf("https://%s/n/h%d", hostR, i)
			b["target"] = []string{st.Col1, st.OCol1}
		case "Remove":
			b["object"] = Pick(r, []string{st.Dave, st.Erin})
			b["target"] = []string{st.Col1, st.OCol1, st.Alice.Followers}
			if i == 0 && r.Bool() {
				b["target"] = []string{st.Col1, st.Note1} // an owned non-collection target: this Remove fails half-way
			}
		case "Follow":
			b["object"] = st.Alice.ID // the same actor follows twice
		default:
			b["object"] = Pick(r, []string{st.Note1, st.Note2})
		}
		return b
	}
	_ = first
	r0 := inboxReq("r0", st.Alice, hostA, mkBody(0))
	r1 := inboxReq("r1", st.Alice, hostA, mkBody(1))
	r1.After = []string{"r0"}
	sp.Requests = []ReqSpec{r0, r1}
	sp.World.Servers[0].Docs = append(sp.World.Servers[0].Docs,
		DocSpec{st.Col1, mustJSON(J{"@context": asCtx, "type": "Collection", "id": st.Col1, "items": []string{st.Dave, st.Erin}})},
		DocSpec{st.OCol1, mustJSON(J{"@context": asCtx, "type": "OrderedCollection", "id": st.OCol1, "orderedItems": []string{st.Erin, st.Dave}})})
	sp.World.Servers[0].Blocked = nil
	sp.Gen = fmt.Sprintf("inbox/C04/%d/history-%s", k, typ)
	return sp
}

func init() {
	register(&PropDef{
		ID: "C04", Level: "exploration", Engine: "fedsim",
		Rule: "case = one activity of a handled type (Create Update Delete Follow Accept Reject Add Remove Like Announce Undo Block, plus Listen for the default callback) posted by a remote peer to a local inbox, with 1-3 objects/targets/actors as IRIs or embedded values, owned or foreign, ordered or unordered collections, pre-existing or absent likes/shares, OnFollow in {nothing, accept, reject}, per type no callback / wrapped / overriding 'other', fetch faults on objects given by IRI; one case in six is swept with every single seam-call fault, one in twelve with a cancellation of the request context at every seam call, one in twelve is a two-request history (same kind twice, swept with single faults) judged request by request against the database as it was when the request started; under a fault or cancellation a request that still answers 200 must show all its effects; oracle = executable model of the documented default effects applied to the database snapshot, compared document by document with the real final database, plus the automatic Accept/Reject on the wire and the callback log. distinct = distinct event sequences.",
		QuickCases: 4000, QuickBudgetS: 150, ThoroughBudgetS: 600,
		Drive: func(c *DriveCtx, r *Rng, k int) {
			if k%6 == 0 {
				seed := r.s
				c.singleFaultSweep(func() *RunSpec { return genInbox(NewRng(seed), "C04", k) }, faultKindFor)
				return
			}
			if k%12 == 3 {
				// the peer hangs up: the request's context is cancelled at one seam call after another
				seed := r.s
				c.singleFaultSweep(func() *RunSpec { return genInbox(NewRng(seed), "C04", k) }, func(string) string { return "ctx_cancel" })
				return
			}
			if k%12 == 9 {
				seed := r.s
				c.singleFaultSweep(func() *RunSpec { return genInboxHistory(NewRng(seed), k) }, faultKindFor)
				return
			}
			c.Exec(genInbox(r, "C04", k))
		},
		Oracle: oracleInbox,
		Assumptions: []string{"followers/following are compared as sets, Add/Remove targets as multisets, likes/shares as sequences (front)", "the 'seen' record written by inbox forwarding and the inbox entry are not part of the compared delta"},
	})
	register(&PropDef{
		ID: "C06", Level: "exploration", Engine: "fedsim",
		Rule: "case = a Byzantine peer's Update/Delete (activity-id host vs 1-3 object hosts equal, different, differing in port, sub-domain or letter case; objects embedded or by IRI), Accept (stored Follow present / absent / another type / another actor / lacking the accepting actor; Follow embedded or by IRI), Undo (actor sets equal / subset / superset / disjoint; undone activity unreachable) with 1-3 actors as IRI or embedded object, each possibly blocked; oracle = authority model (applied => authorised): an unauthorised request must not be answered 200 and must leave the database unchanged apart from the inbox entry; Blocked must be asked, before any side effect, about exactly the actors' ids.",
		QuickCases: 6000, QuickBudgetS: 150, ThoroughBudgetS: 600,
		Drive:  func(c *DriveCtx, r *Rng, k int) { c.Exec(genInbox(r, "C06", k)) },
		Oracle: oracleInbox,
		Assumptions: []string{"hosts differing only in letter case: rejecting and applying are both accepted; port and sub-domain differences must be rejected"},
	})
}
