package sim

import (
	"regexp"
	"fmt"
	"sort"
	"strings"
	"time"

	"github.com/anishathalye/porcupine"
)

// collectionsOf extracts every collection of a store snapshot as a sorted multiset of ids.
func collectionsOf(snap map[string]map[string]string) map[string][]string {
	out := map[string][]string{}
	for host, docs := range snap {
		for id, raw := range docs {
			m, err := parseJ([]byte(raw))
			if err != nil {
				continue
			}
			for _, k := range []string{"items", "orderedItems"} {
				if v, ok := m[k]; ok {
					ids := idsOf(v)
					sort.Strings(ids)
					out[host+"|"+id+"|"+k] = ids
				}
			}
			for _, k := range []string{"likes", "shares"} {
				if em, ok := m[k].(map[string]interface{}); ok {
					for _, kk := range []string{"items", "orderedItems"} {
						if v, ok := em[kk]; ok {
							ids := idsOf(v)
							sort.Strings(ids)
							out[host+"|"+id+"|"+k+"."+kk] = ids
						}
					}
				}
			}
		}
	}
	return out
}

func permutations(n int, limit int, r *Rng) [][]int {
	if n <= 3 {
		var out [][]int
		var rec func(cur []int, used []bool)
		rec = func(cur []int, used []bool) {
			if len(cur) == n {
				out = append(out, append([]int(nil), cur...))
				return
			}
			for i := 0; i < n; i++ {
				if !used[i] {
					used[i] = true
					rec(append(cur, i), used)
					used[i] = false
				}
			}
		}
		rec(nil, make([]bool, n))
		return out
	}
	id := make([]int, n)
	rev := make([]int, n)
	for i := range id {
		id[i] = i
		rev[i] = n - 1 - i
	}
	out := [][]int{id, rev}
	for len(out) < limit {
		out = append(out, r.Perm(n))
	}
	return out
}

type c08Ref struct {
	colls  []map[string][]string // one per sequential permutation
	broken string
}

func sequentialSpec(sp *RunSpec, perm []int) *RunSpec {
	c := sp.Clone()
	c.Sched = SchedSpec{Strategy: "fifo"}
	var keep []FaultSpec
	for _, f := range c.Faults {
		if f.Kind == "net_dup" {
			keep = append(keep, f) // a duplicated message is part of the workload, not a failure
		}
	}
	c.Faults = keep
	reqs := make([]ReqSpec, len(perm))
	for i, p := range perm {
		reqs[i] = c.Requests[p]
		reqs[i].After = nil
		if i > 0 {
			reqs[i].After = []string{reqs[i-1].ID}
		}
	}
	c.Requests = reqs
	c.Gen += " [sequential]"
	return c
}

func equalStrs(a, b []string) bool {
	if len(a) != len(b) {
		return false
	}
	for i := range a {
		if a[i] != b[i] {
			return false
		}
	}
	return true
}

// c08Compare checks the concurrent result against the sequential references.
func c08Compare(res *Result, ref *c08Ref) {
	s := res.Sim
	got := collectionsOf(res.After)
	keys := map[string]bool{}
	for k := range got {
		keys[k] = true
	}
	for _, r := range ref.colls {
		for k := range r {
			keys[k] = true
		}
	}
	for _, k := range sortedKeys(keys) {
		ok := false
		for _, r := range ref.colls {
			if equalStrs(got[k], r[k]) {
				ok = true
				break
			}
		}
		if !ok {
			parts := strings.SplitN(k, "|", 3)
			s.violate("C08", "lost-or-extra-update", collClass(s, parts[0], parts[1], parts[2]),
				fmt.Sprintf("after the concurrent run %s holds %v; sequential executions give %v", k, got[k], refVariants(ref, k)))
		}
	}
}

func refVariants(ref *c08Ref, k string) string {
	seen := map[string]bool{}
	var out []string
	for _, r := range ref.colls {
		v := fmt.Sprint(r[k])
		if !seen[v] {
			seen[v] = true
			out = append(out, v)
		}
	}
	return strings.Join(out, " or ")
}

func collClass(s *Sim, host, id, field string) string {
	if srv := s.World.Servers[host]; srv != nil {
		for _, a := range srv.Actors {
			switch id {
			case a.Inbox:
				return "inbox"
			case a.Outbox:
				return "outbox"
			case a.Followers:
				return "followers"
			case a.Following:
				return "following"
			case a.Liked:
				return "liked"
			}
		}
	}
	if strings.HasPrefix(field, "likes") {
		return "likes"
	}
	if strings.HasPrefix(field, "shares") {
		return "shares"
	}
	return "collection"
}

// ---- duplicates -----------------------------------------------------------

func bodyID(t *Task) string {
	if t.Req == nil || t.Req.Body == nil {
		return ""
	}
	m, err := parseJ(t.Req.Body)
	if err != nil {
		return ""
	}
	id, _ := m["id"].(string)
	return id
}

func c08Duplicates(res *Result) {
	s := res.Sim
	type key struct{ srv, inbox, id string }
	attempts := map[key]int{}
	delivered := map[key]int{}
	taskKey := map[string]key{}
	for _, t := range res.Tasks {
		if t.EntryKind != "postInbox" || t.Req == nil {
			continue
		}
		srv := s.World.Servers[t.Srv]
		a := srv.actorByName(t.Req.Actor)
		id := bodyID(t)
		if a == nil || id == "" {
			continue
		}
		k := key{t.Srv, a.Inbox, id}
		taskKey[t.ID] = k
		if t.Handled && t.Err == nil && t.Rec.Status == 200 {
			delivered[k]++
		}
	}
	fwd := map[string]int{} // srv|id -> forwarding deliveries
	for _, e := range s.Log {
		k, ok := taskKey[e.Task]
		if !ok {
			continue
		}
		if e.Kind == "app.FederatingCallbacks" {
			attempts[k]++
		}
	}
	for _, wmsg := range s.World.Wire {
		srv := s.World.Servers[wmsg.Srv]
		if srv == nil || srv.actorByInbox(wmsg.Box) == nil {
			continue // not a forwarding delivery (box is not an inbox)
		}
		if m, err := parseJ([]byte(wmsg.Payload)); err == nil {
			if id, _ := m["id"].(string); id != "" {
				fwd[wmsg.Srv+"|"+id]++
			}
		}
	}
	for k, n := range attempts {
		if n > 1 {
			s.violate("C08", "duplicate-side-effects", "inbox", fmt.Sprintf("activity %s delivered to %s had its side effects attempted %d times", k.id, k.inbox, n))
		}
	}
	for k, n := range fwd {
		if n > 1 {
			s.violate("C08", "duplicate-forwarding", "inbox", fmt.Sprintf("%s was forwarded %d times", k, n))
		}
	}
	colls := collectionsOf(res.After)
	for k, n := range delivered {
		if n == 0 {
			continue
		}
		cnt := 0
		for _, id := range colls[k.srv+"|"+k.inbox+"|orderedItems"] {
			if id == k.id {
				cnt++
			}
		}
		if cnt != 1 {
			s.violate("C08", "inbox-multiplicity", "inbox", fmt.Sprintf("activity %s was accepted %d time(s) at %s and appears there %d times", k.id, n, k.inbox, cnt))
		}
	}
}

// ---- porcupine: inbox / outbox pages as linearizable id sets -------------------

type pcIn struct {
	Coll string
	Add  string // id added ("" = read)
	Sure bool   // the request reported success
}

func setState(m map[string]bool) string {
	ks := make([]string, 0, len(m))
	for k := range m {
		ks = append(ks, k)
	}
	sort.Strings(ks)
	return strings.Join(ks, "\x00")
}

func stateSet(s string) map[string]bool {
	m := map[string]bool{}
	if s == "" {
		return m
	}
	for _, k := range strings.Split(s, "\x00") {
		m[k] = true
	}
	return m
}

var pcModel = porcupine.NondeterministicModel{
	Partition: func(h []porcupine.Operation) [][]porcupine.Operation {
		by := map[string][]porcupine.Operation{}
		for _, op := range h {
			c := op.Input.(pcIn).Coll
			by[c] = append(by[c], op)
		}
		var out [][]porcupine.Operation
		for _, k := range sortedKeys(by) {
			out = append(out, by[k])
		}
		return out
	},
	Init: func() []interface{} { return []interface{}{""} },
	Step: func(state, input, output interface{}) []interface{} {
		in := input.(pcIn)
		st := state.(string)
		if in.Add != "" {
			m := stateSet(st)
			m[in.Add] = true
			added := setState(m)
			if in.Sure {
				return []interface{}{added}
			}
			return []interface{}{added, st} // a failed request may or may not have added its id
		}
		if output.(string) == st {
			return []interface{}{st}
		}
		return nil
	},
	Equal: func(a, b interface{}) bool { return a.(string) == b.(string) },
	DescribeOperation: func(in, out interface{}) string {
		i := in.(pcIn)
		if i.Add != "" {
			return fmt.Sprintf("add(%s,%s,sure=%v)", i.Coll, i.Add, i.Sure)
		}
		return fmt.Sprintf("read(%s)=%q", i.Coll, out)
	},
}

func c08Porcupine(c *DriveCtx, res *Result) {
	s := res.Sim
	var ops []porcupine.Operation
	universe := map[string]map[string]bool{}
	addOp := func(t *Task, coll, id string, sure bool) {
		if universe[coll] == nil {
			universe[coll] = map[string]bool{}
		}
		universe[coll][id] = true
		ops = append(ops, porcupine.Operation{ClientId: t.Idx, Input: pcIn{Coll: coll, Add: id, Sure: sure}, Call: int64(2 * t.StartSeq), Output: "", Return: int64(2*t.EndSeq - 1)})
	}
	type read struct {
		t    *Task
		coll string
		ids  []string
	}
	var reads []read
	pre := collectionsOf(res.Before)
	for _, t := range res.Tasks {
		if t.Req == nil || !t.done {
			continue
		}
		srv := s.World.Servers[t.Srv]
		a := srv.actorByName(t.Req.Actor)
		switch t.EntryKind {
		case "postInbox":
			if id := bodyID(t); id != "" && a != nil && t.authOK && t.blockOK {
				addOp(t, t.Srv+"|"+a.Inbox, id, t.Err == nil && t.Rec.Status == 200)
			}
		case "postOutbox":
			if loc := t.Rec.Header().Get("Location"); loc != "" && t.Rec.Status == 201 {
				addOp(t, t.Srv+"|"+a.Outbox, loc, true)
			}
		case "send":
			if id, _ := t.Result.(string); id != "" && t.Err == nil {
				addOp(t, t.Srv+"|"+a.Outbox, id, true)
			}
		case "getInbox", "getOutbox":
			if t.Err == nil && t.Rec.Status == 200 {
				if m, err := parseJ(t.Rec.Body.Bytes()); err == nil {
					box := a.Inbox
					if t.EntryKind == "getOutbox" {
						box = a.Outbox
					}
					reads = append(reads, read{t, t.Srv + "|" + box, idsOf(m["orderedItems"])})
				}
			}
		}
	}
	if len(ops) == 0 {
		return
	}
	filt := func(coll string, ids []string) string {
		m := map[string]bool{}
		for _, id := range ids {
			if universe[coll][id] {
				m[id] = true
			}
		}
		return setState(m)
	}
	for _, r := range reads {
		if universe[r.coll] == nil {
			continue
		}
		ops = append(ops, porcupine.Operation{ClientId: r.t.Idx, Input: pcIn{Coll: r.coll}, Call: int64(2 * r.t.StartSeq), Output: filt(r.coll, r.ids), Return: int64(2*r.t.EndSeq - 1)})
	}
	end := int64(2*len(s.Log) + 10)
	post := collectionsOf(res.After)
	for coll := range universe {
		parts := strings.SplitN(coll, "|", 2)
		ids := post[parts[0]+"|"+parts[1]+"|orderedItems"]
		_ = pre
		ops = append(ops, porcupine.Operation{ClientId: 99, Input: pcIn{Coll: coll}, Call: end, Output: filt(coll, ids), Return: end + 1})
	}
	if len(ops) > 40 {
		c.Out.Inconclusive++
		return
	}
	switch porcupine.CheckOperationsTimeout(pcModel.ToModel(), ops, 10*time.Second) {
	case porcupine.Illegal:
		var desc []string
		for _, op := range ops {
			desc = append(desc, fmt.Sprintf("[%d,%d] %s", op.Call, op.Return, pcModel.DescribeOperation(op.Input, op.Output)))
		}
		s.violate("C08", "not-linearizable", "inbox-outbox-history", "the history of posts and reads on an inbox/outbox is not linearizable: "+trunc(strings.Join(desc, "; "), 900))
	case porcupine.Unknown:
		c.Out.Inconclusive++
	}
}

// ---- workload ---------------------------------------------------------------

type c08Gen struct {
	dups []string
	st   *Std
	r    *Rng
	reqs []ReqSpec
	n    int
}

func (g *c08Gen) id() string {
	g.n++
	return fmt.Sprintf("r%d", g.n-1)
}

func (g *c08Gen) remoteAct(typ string, f J) J { return g.st.act(typ, f) }

func (g *c08Gen) family(f int) {
	st, r := g.st, g.r
	boxes := []*ActorDir{st.Alice, st.Carol}
	switch f {
	case 0: // duplicate POSTs of one activity to one inbox
		var body J
		switch r.Intn(4) {
		case 0:
			body = g.remoteAct("Like", J{"object": st.Note1})
		case 1:
			body = g.remoteAct("Follow", J{"object": st.Alice.ID})
		case 2:
			body = g.remoteAct("Create", J{"to": st.Alice.Followers, "object": J{"type": "Note", "id": st.RNote, "attributedTo": st.Dave, "inReplyTo": st.Note1}})
		default:
			body = g.remoteAct("Announce", J{"object": st.Note2, "to": st.Col1})
		}
		for i, n := 0, 2+r.Intn(2); i < n; i++ {
			g.reqs = append(g.reqs, inboxReq(g.id(), st.Alice, hostA, body))
		}
	case 1: // different activities to one inbox
		for i, n := 0, 2+r.Intn(2); i < n; i++ {
			typ := Pick(r, []string{"Like", "Announce", "Listen", "Create"})
			f := J{"object": Pick(r, []string{st.Note1, st.Note2})}
			if typ == "Create" {
				f["object"] = J{"type": "Note", "id": fmt.Sprintf("%s/x%d", st.RNote, i), "attributedTo": st.Dave}
			}
			g.reqs = append(g.reqs, inboxReq(g.id(), st.Alice, hostA, g.remoteAct(typ, f)))
		}
	case 2: // the same activity to two local inboxes
		body := g.remoteAct(Pick(r, []string{"Like", "Announce"}), J{"object": st.Note1, "to": []string{st.Alice.ID, st.Carol.ID}})
		g.reqs = append(g.reqs, inboxReq(g.id(), st.Alice, hostA, body), inboxReq(g.id(), st.Carol, hostA, body))
	case 3: // Likes / Announces of one owned object, or of the same two owned objects listed in different orders
		obj := Pick(r, []string{st.Note1, st.Note2, st.Note1 + "#part-2"})
		two := r.Intn(3) == 0
		for i, n := 0, 2+r.Intn(2); i < n; i++ {
			var o interface{} = obj
			if !two && r.Intn(4) == 0 {
				o = []string{obj, obj} // the same object listed twice: two entries, each under its own hold of the object's lock
			}
			if two {
				if (i+r.Intn(2))%2 == 0 {
					o = []string{st.Note1, st.Note2}
				} else {
					o = []string{st.Note2, st.Note1}
				}
			}
			g.reqs = append(g.reqs, inboxReq(g.id(), Pick(r, boxes), hostA, g.remoteAct(Pick(r, []string{"Like", "Announce"}), J{"object": o})))
		}
	case 4: // Follows of one actor with auto-accept
		froms := []string{st.Dave, st.Erin, st.Bob.ID}
		p := r.Perm(3)
		for i, n := 0, 2+r.Intn(2); i < n; i++ {
			who := froms[p[i]]
			var body J
			if who == st.Bob.ID {
				body = J{"@context": asCtx, "type": "Follow", "id": "https://" + hostB + "/f/1", "actor": st.Bob.ID, "object": st.Alice.ID}
			} else {
				body = g.remoteAct("Follow", J{"actor": who, "object": st.Alice.ID})
			}
			g.reqs = append(g.reqs, inboxReq(g.id(), st.Alice, hostA, body))
		}
	case 5: // Accepts for one actor
		for i, who := range []string{st.Dave, st.Erin} {
			fid := fmt.Sprintf("https://%s/f/%d", hostA, i+1)
			g.reqs = append(g.reqs, inboxReq(g.id(), st.Alice, hostA, g.remoteAct("Accept", J{"actor": who, "object": J{"type": "Follow", "id": fid, "actor": st.Alice.ID, "object": who}})))
		}
	case 6: // Adds on one owned collection
		tgt := Pick(r, []string{st.Col1, st.OCol1})
		for i, n := 0, 2+r.Intn(2); i < n; i++ {
			g.reqs = append(g.reqs, inboxReq(g.id(), Pick(r, boxes), hostA, g.remoteAct("Add", J{"object": fmt.Sprintf("%s/a%d", st.RNote, i), "target": tgt})))
		}
	case 7: // client POSTs to one outbox
		for i, n := 0, 2+r.Intn(2); i < n; i++ {
			var body J
			switch r.Intn(3) {
			case 0:
				body = J{"@context": asCtx, "type": "Note", "content": fmt.Sprint("n", i), "to": []string{st.Dave, st.Bob.ID, st.Carol.ID}}
				if r.Intn(3) == 0 {
					// also addressed to the sending actor itself, whose inbox the application knows
					body["cc"] = st.Alice.ID
					if st.W.Servers[0].StoredInbox == nil {
						st.W.Servers[0].StoredInbox = map[string]string{}
					}
					st.W.Servers[0].StoredInbox[st.Alice.ID] = st.Alice.Inbox
				}
				g.dups = append(g.dups, fmt.Sprintf("r%d|net|%s#1", g.n, Pick(r, []string{st.Bob.Inbox, st.Carol.Inbox})))
			case 1:
				body = J{"@context": asCtx, "type": "Like", "actor": st.Alice.ID, "object": fmt.Sprintf("%s/l%d", st.RNote, i), "to": st.Dave}
			default:
				body = J{"@context": asCtx, "type": "Add", "actor": st.Alice.ID, "object": fmt.Sprintf("%s/o%d", st.RNote, i), "target": st.Col1}
			}
			if r.Intn(4) == 0 {
				g.reqs = append(g.reqs, sendReq(g.id(), st.Alice, hostA, body))
			} else {
				g.reqs = append(g.reqs, outboxReq(g.id(), st.Alice, hostA, body))
			}
		}
	case 8: // forwarding-eligible activities naming the same owned collections in different orders
		cols := []string{st.Alice.Followers, st.Col1, st.OCol1}
		for i, n := 0, 2+r.Intn(2); i < n; i++ {
			p := r.Perm(3)
			to := []string{cols[p[0]], cols[p[1]]}
			if r.Intn(4) == 0 {
				// an activity about the very collection it is addressed to, one level down (an Announce of an Add to it)
				g.reqs = append(g.reqs, inboxReq(g.id(), Pick(r, boxes), hostA, g.remoteAct("Announce", J{"to": to,
					"object": J{"type": "Add", "id": fmt.Sprintf("%s/add%d", st.RNote, i), "actor": st.Dave, "object": st.RNote, "target": to[r.Intn(2)]}})))
				continue
			}
			g.reqs = append(g.reqs, inboxReq(g.id(), Pick(r, boxes), hostA, g.remoteAct("Create", J{"to": to,
				"object": J{"type": "Note", "id": fmt.Sprintf("%s/f%d", st.RNote, i), "attributedTo": st.Dave, "inReplyTo": st.Note1}})))
		}
	case 10: // a client Update of an owned object while peers like / announce it
		obj := Pick(r, []string{st.Note1, st.Note2})
		g.reqs = append(g.reqs, outboxReq(g.id(), st.Alice, hostA, J{"@context": asCtx, "type": "Update", "actor": st.Alice.ID, "to": st.Dave,
			"object": J{"type": "Note", "id": obj, "content": "edited while liked"}}))
		for i, n := 0, 1+r.Intn(2); i < n; i++ {
			g.reqs = append(g.reqs, inboxReq(g.id(), Pick(r, boxes), hostA, g.remoteAct(Pick(r, []string{"Like", "Announce"}), J{"object": obj})))
		}
	case 9: // readers
		g.reqs = append(g.reqs, getReq(g.id(), Pick(r, []string{"getInbox", "getOutbox"}), st.Alice, hostA))
	}
}

func genC08(r *Rng, tier string, k int) *RunSpec {
	o := defaultOpt()
	switch r.Intn(6) {
	case 0, 1:
		o.Transport = "queued"
	case 2:
		o.Transport = "httpsig" // the real HttpSigTransport (its goroutines and mutexes join the schedule)
	}
	st := newStd(o)
	// a second stored Follow so that two Accepts verify; a populated followers collection for forwarding
	st.W.Servers[0].Docs = append(st.W.Servers[0].Docs,
		DocSpec{"https://" + hostA + "/f/2", mustJSON(J{"@context": asCtx, "type": "Follow", "id": "https://" + hostA + "/f/2", "actor": st.Alice.ID, "object": st.Erin})},
		DocSpec{st.Alice.Followers, mustJSON(J{"@context": asCtx, "type": "Collection", "id": st.Alice.Followers, "items": []string{st.Dave}})})
	if r.Intn(3) == 0 {
		// the application has callbacks of its own behind the defaults (they can fail, too)
		cbs := map[string]string{}
		for _, t := range []string{"Create", "Follow", "Accept", "Add", "Like", "Announce", "Update"} {
			if r.Bool() {
				cbs[t] = "wrapped"
			}
		}
		st.W.Servers[0].FedCb, st.W.Servers[0].SocCb = cbs, cbs
	}
	// an owned value whose id points into a document
	st.W.Servers[0].Docs = append(st.W.Servers[0].Docs, DocSpec{st.Note1 + "#part-2",
		mustJSON(J{"@context": asCtx, "type": "Note", "id": st.Note1 + "#part-2", "attributedTo": st.Alice.ID, "content": "a part"})})
	g := &c08Gen{st: st, r: r}
	maxReq := 3
	if tier == "thorough" {
		maxReq = 5
	}
	g.family(Pick(r, []int{0, 1, 2, 3, 4, 5, 6, 7, 8, 10}))
	for len(g.reqs) < 2 || (len(g.reqs) < maxReq && r.Intn(3) == 0) {
		g.family(r.Intn(11))
	}
	if len(g.reqs) > maxReq {
		g.reqs = g.reqs[:maxReq]
	}
	sp := mk("C08", st, g.reqs...)
	for _, site := range g.dups {
		ok := false
		for _, rq := range g.reqs {
			if strings.HasPrefix(site, rq.ID+"|") {
				ok = true
			}
		}
		if ok && r.Bool() {
			sp.Faults = append(sp.Faults, FaultSpec{Site: site, Kind: "net_dup"}) // the network duplicates this delivery
		}
	}
	sp.Gen = fmt.Sprintf("c08/%d", k)
	sp.MapSeed = r.U64() | 1
	return sp
}

func init() {
	register(&PropDef{
		ID: "C08", Level: "exploration", Engine: "fedsim",
		Rule: "case = a seeded scenario of 2-3 (thorough: up to 5) concurrent requests on one server drawn from eleven families (a client Update of an object while peers like it, duplicate inbox POSTs, different activities to one inbox, one activity to two inboxes, Likes/Announces of one object, Follows with auto-accept, Accepts, Adds, client POSTs / Send, forwarding over the same collections in different orders, GET readers); " +
			"per case: all sequential permutations (<=3 requests; 6 sampled beyond) as reference, then seeded schedules (fifo, random walk, sticky, PCT with 1-3 priority change points) at seam granularity (Database, Transport, callbacks, clock reads, response writes; with the real HttpSigTransport in 1/6 of the cases also its goroutines and mutexes); network duplication of deliveries (net_dup); every third case a single-fault class (one seam call fails under a random schedule: everything must still complete), every fourth a crash class (the server dies at a random step, locks vanish, the database survives, the peers redeliver); " +
			"oracles: completion (deadlock detection), per-collection multiset equality with some sequential execution, porcupine linearizability of inbox/outbox posts and reads, duplicate handling. distinct = distinct (task, seam kind, result class) event sequences, i.e. distinct interleavings at seam granularity.",
		QuickCases:      160,
		QuickBudgetS:    150,
		ThoroughBudgetS: 600,
		ExpectProbes:    []string{"lock-contention", "nested-delivery"},
		Drive:           driveC08,
		Oracle:          c08Oracle,
		Assumptions: []string{
			"SimDB.Lock gives per-id mutual exclusion (the proviso of the statement); values handed out by the database are private copies",
			"sequential reference = the same library code run one request after another; C08 therefore decides interleaving-dependence, not functional correctness (C04/C05/C16)",
			"per collection, equality with at least one sequential order is required (weakest reading of 'the same requests executed one after another')",
		},
	})
}

var c08RefCache = map[string]*c08Ref{}

var c08SoloCache = map[string]map[string]int{}

// c08Solo: what one request adds to the collections of the world when it runs alone (multiset of "collection|entry").
func c08Solo(c *DriveCtx, sp *RunSpec, i int) map[string]int {
	key := scenarioKey(sp) + fmt.Sprint("#", i)
	if v, ok := c08SoloCache[key]; ok {
		return v
	}
	if len(c08SoloCache) > 256 {
		c08SoloCache = map[string]map[string]int{}
	}
	one := sp.Clone()
	one.Faults = nil
	one.Sched = SchedSpec{Strategy: "fifo"}
	one.Requests = []ReqSpec{sp.Requests[i]}
	one.Requests[0].After = nil
	one.Gen += " [solo]"
	res := Execute(c.T, one)
	out := map[string]int{}
	if res.Harness == "" && res.Verdict == "" {
		before, after := collectionsOf(res.Before), collectionsOf(res.After)
		for coll, ids := range after {
			for _, id := range ids {
				out[coll+"|"+id]++
			}
			for _, id := range before[coll] {
				out[coll+"|"+id]--
			}
		}
		for k, n := range out {
			if n <= 0 {
				delete(out, k)
			}
		}
	}
	c08SoloCache[key] = out
	return out
}

// mintedBy: ids the simulated Database mints carry the minting task's name (.../accept/r1-1); which of two deliveries of one
// activity does the minting is a matter of schedule, so the task name is not part of an entry's identity here.
var mintedBy = regexp.MustCompile(`/[rx][0-9]+(\.[0-9]+)*-([0-9]+)$`)

func unminted(k string) string { return mintedBy.ReplaceAllString(k, "/*-$2") }

// c08SurvivesOthersFailure: single-fault class with an injected call failure. Every request that was not the one made to fail,
// that answered success and that is not a second delivery of the failed request's activity, has added - when run alone - certain
// entries to certain collections; all the families only ever add, so those entries must be there at the end.
func c08SurvivesOthersFailure(c *DriveCtx, res *Result) {
	s := res.Sim
	var faulted []string
	for _, f := range res.Spec.Faults {
		switch f.Kind {
		case "db_err", "tp_err", "cb_err", "auth_err", "block_err":
			faulted = append(faulted, strings.SplitN(strings.SplitN(f.Site, "|", 2)[0], ".", 2)[0])
		case "net_dup":
		default:
			return // crash, cancellation: other rules
		}
	}
	if len(faulted) == 0 {
		return
	}
	actID := func(rq *ReqSpec) string {
		if b, err := parseJ(rq.Body); err == nil {
			return idOf(b)
		}
		return ""
	}
	failedIDs := map[string]bool{}
	for i := range res.Spec.Requests {
		if contains(faulted, res.Spec.Requests[i].ID) {
			failedIDs[actID(&res.Spec.Requests[i])] = true
		}
	}
	need := map[string]int{}
	owner := map[string]string{}
	counted := map[string]bool{}
	for i := range res.Spec.Requests {
		rq := &res.Spec.Requests[i]
		t := s.byID[rq.ID]
		if t == nil || !t.done || t.Err != nil || contains(faulted, rq.ID) || rq.AfterCrash {
			continue
		}
		if rq.Kind != "postInbox" && rq.Kind != "postOutbox" {
			continue
		}
		if t.Rec == nil || (t.Rec.Status != 200 && t.Rec.Status != 201) {
			continue
		}
		if id := actID(rq); id != "" && failedIDs[id] {
			continue // a second delivery of the failed activity is absorbed as a duplicate: at most once, not exactly once
		}
		if id := actID(rq); id != "" && rq.Kind == "postInbox" {
			if counted[rq.Actor+"|"+id] {
				continue // the same activity delivered again to the same inbox adds nothing
			}
			counted[rq.Actor+"|"+id] = true
		}
		for k, n := range c08Solo(c, res.Spec, i) {
			need[unminted(k)] += n
			owner[unminted(k)] = rq.ID
		}
	}
	have := map[string]int{}
	for coll, ids := range collectionsOf(res.After) {
		for _, id := range ids {
			have[unminted(coll+"|"+id)]++
		}
	}
	for _, k := range sortedKeys(need) {
		if have[k] < need[k] {
			s.violate("C08", "lost-update-under-failure", "collections", fmt.Sprintf("%s answered success and, run alone, adds %s (x%d); with %v made to fail (%s) only %d are there at the end", owner[k], k, need[k], faulted, res.Spec.Faults[0].Site, have[k]))
			return
		}
	}
}

func scenarioKey(sp *RunSpec) string {
	return canonJSON(J{"w": mustJSON(sp.World), "r": mustJSON(sp.Requests), "m": sp.MapSeed})
}

// c08Reference runs the requests one after another in every order (<=3) or 6 sampled orders.
func c08Reference(c *DriveCtx, sp *RunSpec) *c08Ref {
	key := scenarioKey(sp)
	if ref, ok := c08RefCache[key]; ok {
		return ref
	}
	if len(c08RefCache) > 64 {
		c08RefCache = map[string]*c08Ref{}
	}
	ref := &c08Ref{}
	for _, p := range permutations(len(sp.Requests), 6, NewRng(uint64(len(key)))) {
		sq := sequentialSpec(sp, p)
		res := Execute(c.T, sq)
		if res.Harness != "" || res.Verdict != "" {
			ref.broken = res.Harness + res.Verdict
			break
		}
		ref.colls = append(ref.colls, collectionsOf(res.After))
	}
	c08RefCache[key] = ref
	return ref
}

func c08Oracle(c *DriveCtx, res *Result) {
	if res.Verdict != "" {
		return // deadlock is reported by Execute; budget is a harness matter
	}
	c08Duplicates(res)
	for _, f := range res.Spec.Faults {
		if f.Kind != "net_dup" {
			// fault class: completion and duplicate handling (a failed request may have done part of its effects) - and the
			// failure of one request may not cost another, acknowledged request what it added
			c08SurvivesOthersFailure(c, res)
			return
		}
	}
	seq := true
	for i, r := range res.Spec.Requests {
		if i > 0 && len(r.After) == 0 {
			seq = false
		}
	}
	if seq && len(res.Spec.Requests) > 1 {
		return // this *is* a sequential execution
	}
	ref := c08Reference(c, res.Spec)
	if ref.broken != "" {
		return // the scenario does not even complete sequentially: reported separately by driveC08
	}
	c08Compare(res, ref)
	c08Porcupine(c, res)
}

func driveC08(c *DriveCtx, r *Rng, k int) {
	sp := genC08(r.Fork("scenario"), c.Tier, k)
	n := len(sp.Requests)
	// sequential executions are explored too (completion, duplicates): identity order and reverse
	for _, p := range [][]int{permutations(n, 2, r)[0], permutations(n, 6, r)[len(permutations(n, 6, r))-1]} {
		sq := sequentialSpec(sp, p)
		c.Exec(sq)
	}
	nsched := 10
	if c.Tier == "thorough" {
		nsched = 40
	}
	var sites []string
	for i := 0; i < nsched && !c.Expired(); i++ {
		run := sp.Clone()
		sr := r.Fork(fmt.Sprintf("sched/%d", i))
		switch i % 5 {
		case 0:
			run.Sched = SchedSpec{Strategy: "random", Seed: sr.U64()}
		case 1:
			run.Sched = SchedSpec{Strategy: "sticky", Seed: sr.U64()}
		default:
			run.Sched = SchedSpec{Strategy: "pct", Seed: sr.U64(), Depth: 1 + i%3, Horizon: 40 * n}
		}
		run.Gen += fmt.Sprintf(" sched=%s/%d", run.Sched.Strategy, i)
		res := c.Exec(run)
		if i == 0 {
			sites = res.Sim.Sites
		}
	}
	// crash class: the server dies at a random step (tasks unwind, locks vanish, the database survives), then the
	// peers redeliver every inbox activity; duplicates must still be absorbed and nothing may hang
	if len(sites) > 0 && k%4 == 1 {
		nc := 4
		if c.Tier == "thorough" {
			nc = 12
		}
		for i := 0; i < nc && !c.Expired(); i++ {
			cr := r.Fork(fmt.Sprintf("crash/%d", i))
			run := sp.Clone()
			n0 := len(run.Requests)
			for j := 0; j < n0; j++ {
				if run.Requests[j].Kind == "postInbox" {
					rq := run.Requests[j]
					rq.ID = fmt.Sprintf("x%d", j)
					rq.AfterCrash = true
					rq.After = nil
					run.Requests = append(run.Requests, rq)
				}
			}
			run.Faults = []FaultSpec{{Site: fmt.Sprintf("step|%d", 1+cr.Intn(len(sites)+5)), Kind: "crash", Arg: hostA}}
			run.Sched = SchedSpec{Strategy: Pick(cr, []string{"random", "sticky", "fifo"}), Seed: cr.U64()}
			run.Gen += fmt.Sprintf(" crash@%s sched=%s", run.Faults[0].Site, run.Sched.Strategy)
			c.Exec(run)
		}
	}
	// fault class: one seam call fails somewhere, under a random schedule; everything must still complete
	if len(sites) > 0 && k%3 == 0 {
		nf := 6
		if c.Tier == "thorough" {
			nf = 16
		}
		for i := 0; i < nf && !c.Expired(); i++ {
			fr := r.Fork(fmt.Sprintf("fault/%d", i))
			run := sp.Clone()
			site := Pick(fr, sites)
			run.Faults = []FaultSpec{{Site: site, Kind: faultKindFor(site)}}
			run.Sched = SchedSpec{Strategy: Pick(fr, []string{"random", "sticky", "fifo"}), Seed: fr.U64()}
			run.Gen += fmt.Sprintf(" fault=%s sched=%s", site, run.Sched.Strategy)
			c.Exec(run)
		}
	}
}
