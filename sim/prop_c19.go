package sim

import (
	"fmt"
	"strings"
)

var txHeaderLists = [][]string{
	{"(request-target)", "host", "date", "digest"},
	{"(request-target)", "date"},
	{"host", "date", "digest", "user-agent"},
	{"date"},
	{"(request-target)", "host", "date", "digest", "content-type", "accept-charset"},
}

func genC19(r *Rng, k int, tier string) *RunSpec {
	st := newStd(defaultOpt())
	st.W.Servers = st.W.Servers[:1]
	a := &st.W.Servers[0]
	a.ClockBase = int64(r.Intn(2_000_000_000))
	a.Zone = Pick(r, []int{0, 7200, -28800})
	tx := &TxSpec{Algo: Pick(r, []string{"rsa-sha256", "rsa-sha256", "hmac-sha256"}), Headers: Pick(r, txHeaderLists), Fates: map[string]string{},
		Agent: Pick(r, []string{"simapp/1.0", "My App (test) v2", "demoApp/1.0 (go-fed/activity v1.0.0)"}), KeyID: "https://" + hostA + "/u/alice#main-key"}
	st.W.Tx = tx
	var reqs []ReqSpec
	nreq := 1 + r.Intn(3)
	if r.Intn(6) == 0 {
		nreq = 3 + r.Intn(3) // a longer history on one transport value
	}
	fate := func() string {
		switch x := r.Intn(20); {
		case x < 9:
			return Pick(r, []string{"status:200", "status:201", "status:202"})
		case x < 15:
			return fmt.Sprintf("status:%d", 100+r.Intn(500))
		case x < 17:
			return Pick(r, []string{"status:204", "status:203", "status:301", "status:404", "status:410", "status:500", "status:503", "status:199"})
		case x < 19:
			return Pick(r, []string{"err", "err", "err:empty", "err:temporary"})
		}
		return "short"
	}
	for i := 0; i < nreq; i++ {
		id := fmt.Sprintf("r%d", i)
		payload := mustJSON(J{"@context": asCtx, "type": "Create", "id": fmt.Sprintf("https://%s/act/%d-%d", hostA, k, i), "actor": st.Alice.ID,
			"object": J{"type": "Note", "content": strings.Repeat("x", r.Intn(200))}})
		// payloads are the caller's business: none at all, the empty object, or an activity
		switch r.Intn(10) {
		case 0:
			payload = nil
		case 1:
			payload = mustJSON(J{})
		}
		switch x := r.Intn(10); {
		case x < 6:
			n := r.Intn(5)
			if r.Intn(6) == 0 {
				n = r.Intn(65)
			}
			if tier != "thorough" && n > 24 {
				n = 24
			}
			var rc []string
			for j := 0; j < n; j++ {
				if len(rc) > 0 && r.Intn(6) == 0 {
					rc = append(rc, Pick(r, rc)) // duplicates allowed
				} else {
					rc = append(rc, fmt.Sprintf("https://%s/u/%sp%d/inbox%s", Pick(r, []string{"peer0.example", "peer1.example", "peer2.example", "peer3.example", "peer1.example:8443", "[2001:db8::1]:8080", "peer2.example:443"}),
						Pick(r, []string{"", "", "", "", "caf%C3%A9-", "%7E", "a%20b%25-"}), j, Pick(r, []string{"", "", "", "", "?shared=1", "?n=50%25&u=%C3%A9"})))
				}
			}
			reqs = append(reqs, ReqSpec{ID: id, Server: hostA, Kind: "txBatch", Body: payload, Recipients: rc})
			for j := range rc {
				tx.Fates[fmt.Sprintf("%s.%d#1", id, j+1)] = fate()
			}
		case x < 8:
			reqs = append(reqs, ReqSpec{ID: id, Server: hostA, Kind: "txDeliver", Body: payload, Recipients: []string{Pick(r, []string{"https://peer1.example/u/solo/inbox", "https://peer1.example:8443/u/solo/inbox", "http://[2001:db8::2]:8080/u/solo/inbox", "https://peer1.example/u/s%C3%B3lo/inbox?x=%25"})}})
			tx.Fates[id+"#1"] = fate()
		default:
			reqs = append(reqs, ReqSpec{ID: id, Server: hostA, Kind: "txDeref", Recipients: []string{fmt.Sprintf("https://%s/n/%d", Pick(r, []string{"peer2.example", "peer2.example:444", "[2001:db8::3]"}), r.Intn(9))}})
			tx.Fates[id+"#1"] = fate()
		}
	}
	sp := mk("C19", st, reqs...)
	// the signer itself fails for some request (one fault per run at most)
	if r.Intn(5) == 0 {
		rq := Pick(r, reqs)
		switch rq.Kind {
		case "txBatch":
			if n := len(rq.Recipients); n > 0 {
				sp.Faults = append(sp.Faults, FaultSpec{Site: fmt.Sprintf("%s.%d|signer.post|1", rq.ID, 1+r.Intn(n)), Kind: "sign_err"})
			}
		case "txDeliver":
			sp.Faults = append(sp.Faults, FaultSpec{Site: rq.ID + "|signer.post|1", Kind: "sign_err"})
		default:
			sp.Faults = append(sp.Faults, FaultSpec{Site: rq.ID + "|signer.get|1", Kind: "sign_err"})
		}
	}
	switch r.Intn(4) {
	case 0:
		sp.Sched = SchedSpec{Strategy: "fifo"}
	case 1:
		sp.Sched = SchedSpec{Strategy: "random", Seed: r.U64()}
	case 2:
		sp.Sched = SchedSpec{Strategy: "sticky", Seed: r.U64()}
	default:
		sp.Sched = SchedSpec{Strategy: "pct", Seed: r.U64(), Depth: 1 + r.Intn(3), Horizon: 60}
	}
	if r.Intn(4) == 0 {
		sp.Faults = append(sp.Faults, FaultSpec{Site: fmt.Sprintf("clock|%d", 1+r.Intn(6)), Kind: "clock_jump", Arg: fmt.Sprint(r.Intn(200000) - 100000)})
	}
	sp.Gen = fmt.Sprintf("c19/%d", k)
	sp.MaxSteps = 40000
	return sp
}

func fateOK(fate string, post bool) bool {
	if post {
		// "short" is a 200 whose body cannot be read; Deliver does not read the body
		return fate == "status:200" || fate == "status:201" || fate == "status:202" || fate == "short"
	}
	return fate == "status:200"
}

func oracleC19(c *DriveCtx, res *Result) {
	s := res.Sim
	w := s.World.Tx
	if w == nil || res.Verdict != "" {
		return
	}
	for _, t := range res.Tasks {
		if t.Parent != nil || t.Req == nil || !t.done || t.Panic != nil {
			continue
		}
		switch t.EntryKind {
		case "txBatch":
			// every recipient occurrence attempted exactly once, by this batch's own goroutines
			want := map[string]int{}
			for _, rc := range t.Req.Recipients {
				want[rc]++
			}
			got := map[string]int{}
			var failed, httpFailed []string
			// a recipient whose request the signer refused is a failed attempt that never reaches the HTTP client
			// (attributed by what the signer saw, not by which goroutine of the batch did it)
			for _, sf := range w.SignFails {
				if strings.HasPrefix(sf.Task, t.ID+".") || sf.Task == t.ID {
					want[sf.URL]--
					failed = append(failed, sf.URL)
					s.probe("c19-signer-failure-in-batch")
				}
			}
			for _, at := range w.Attempts {
				if strings.HasPrefix(at.Task, t.ID+".") || at.Task == t.ID {
					got[at.URL]++
					if !fateOK(at.Fate, true) {
						failed = append(failed, at.URL)
						if at.Fate != "err:empty" { // an error without text cannot be named beyond its being there
							httpFailed = append(httpFailed, at.URL)
						}
					}
				}
			}
			for _, u := range sortedKeys(want) {
				if got[u] != want[u] {
					s.violate("C19", "attempts-per-recipient", "BatchDeliver", fmt.Sprintf("recipient %s listed %d time(s) was attempted %d time(s) (batch of %d, fates %v)", u, want[u], got[u], len(t.Req.Recipients), batchFates(w, t)))
				}
			}
			for _, u := range sortedKeys(got) {
				if want[u] == 0 {
					s.violate("C19", "attempt-to-unlisted-recipient", "BatchDeliver", fmt.Sprintf("%s was attempted but is not in the recipient list", u))
				}
			}
			if (t.Err != nil) != (len(failed) > 0) {
				s.violate("C19", "batch-error-iff-failure", "BatchDeliver", fmt.Sprintf("BatchDeliver returned err=%v with %d failed attempts (fates %v)", t.Err, len(failed), batchFates(w, t)))
			}
			if t.Err != nil {
				nf := map[string]int{}
				for _, u := range httpFailed {
					nf[u]++
				}
				for _, u := range sortedKeys(nf) {
					if strings.Count(t.Err.Error(), u) < nf[u] {
						s.violate("C19", "failure-not-named", "BatchDeliver", fmt.Sprintf("the batch error does not name the failed recipient %s: %q", u, trunc(t.Err.Error(), 300)))
					}
				}
			}
			if len(failed) > 1 {
				s.probe("c19-batch-multiple-failures")
			}
		case "txDeliver":
			fate := w.spec.Fates[t.ID+"#1"]
			if taskFaulted(res, t) || signerRefused(w, t) {
				if t.Err == nil {
					s.violate("C19", "signer-error-swallowed", "Deliver", "the signer failed and Deliver reported success")
				}
				continue
			}
			if (t.Err == nil) != fateOK(fate, true) {
				s.violate("C19", "deliver-status-classification", "Deliver", fmt.Sprintf("Deliver with response %q returned err=%v", fate, t.Err))
			}
		case "txDeref":
			fate := w.spec.Fates[t.ID+"#1"]
			body, _ := t.Result.(string)
			if taskFaulted(res, t) || signerRefused(w, t) {
				if t.Err == nil {
					s.violate("C19", "signer-error-swallowed", "Dereference", "the signer failed and Dereference reported success")
				}
				continue
			}
			if (t.Err == nil) != fateOK(fate, false) {
				s.violate("C19", "dereference-status-classification", "Dereference", fmt.Sprintf("Dereference with response %q returned err=%v", fate, t.Err))
			}
			if t.Err == nil && !strings.Contains(body, "\"type\":\"Note\"") {
				s.violate("C19", "dereference-body", "Dereference", "successful Dereference did not return the response body")
			}
			if t.Err == nil && fate == "status:200" {
				if want := string(txDoc(t.Req.Recipients[0])); body != want {
					s.violate("C19", "dereference-body", "Dereference", fmt.Sprintf("Dereference returned %d bytes, the response body has %d (%q...)", len(body), len(want), trunc(body, 60)))
				}
			}
			if t.Err == nil && string(t.Held) != body {
				s.violate("C19", "dereference-body-changed-later", "Dereference", fmt.Sprintf("the body Dereference returned for %s read %q when it was returned and %q when the run was over (shared with a later call)", t.Req.Recipients[0], trunc(body, 80), trunc(string(t.Held), 80)))
			}
			if fate != "status:200" && fate != "short" && body != "" {
				s.violate("C19", "dereference-body-on-failure", "Dereference", fmt.Sprintf("Dereference returned a body for response %q", fate))
			}
		}
	}
}

func signerRefused(w *TxWorld, t *Task) bool {
	for _, sf := range w.SignFails {
		if sf.Task == t.ID {
			return true
		}
	}
	return false
}

func batchFates(w *TxWorld, t *Task) []string {
	var out []string
	for i := range t.Req.Recipients {
		out = append(out, w.spec.Fates[fmt.Sprintf("%s.%d#1", t.ID, i+1)])
	}
	if len(out) > 12 {
		out = append(out[:12], "…")
	}
	return out
}

func init() {
	register(&PropDef{
		ID: "C19", Level: "exploration", Engine: "txsim",
		Rule: "case = 1-3 concurrent calls (BatchDeliver with 0-24 recipients, thorough up to 64, duplicates allowed, recipient URLs with ports, IPv6 literals, percent-escaped paths and queries; Deliver; Dereference; payload an activity, the empty object or no bytes at all) on ONE HttpSigTransport value with real httpsig RSA-SHA256 or HMAC-SHA256 signers over five signed-header lists, per-request response fates (200/201/202, any status 100-599, boundary statuses 199/203/204/301, transport error, body read error), signer failures, seeded schedule (fifo / random / sticky / PCT) over the library's goroutines, signer mutexes, signer bodies and HTTP calls, per-run clock base/zone and clock jumps; oracle at SignRequest (key, key id, headers already set, stateful signer never entered by two tasks), at HttpClient.Do (headers unchanged since signing, User-Agent/Host/Accept/Content-Type/Date, Digest, real httpsig verification of what the client receives, body bytes = signed bytes), and on results (each recipient occurrence attempted exactly once, error iff a failure, every failed recipient named, return only after all attempts finished, status classification). distinct = distinct (scenario, interleaving) event sequences.",
		QuickCases: 5000, QuickBudgetS: 150, ThoroughBudgetS: 600,
		ExpectProbes: []string{"lock-contention-mutex"},
		Drive:  func(c *DriveCtx, r *Rng, k int) { c.Exec(genC19(r, k, c.Tier)) },
		Oracle: oracleC19,
		Assumptions: []string{"'race-free' is decided at the granularity the simulator controls: signer critical sections, goroutine start arguments, channel capacity and completion - the scheduler's hand-offs order all memory accesses, so the Go race detector would see nothing and is not used as an oracle",
			"the recording signer wraps the real httpsig signer and parks inside SignRequest so that a missing or per-call mutex lets a second task in"},
	})
}
