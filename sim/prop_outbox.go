package sim

// Outbox family: C02 (recipient resolution), C03 (hidden recipients), C05
// (identify, normalise, store, then deliver). One generator, three oracles.

import (
	"fmt"
	"sort"
	"strings"
)

var fiveProps = []string{"to", "bto", "cc", "bcc", "audience"}

// ---- generator -------------------------------------------------------------

type obGen struct {
	r      *Rng
	st     *Std
	actors []string          // candidate recipient actors (remote, peer, local, sender)
	colls  []string          // remote collections
	docs   map[string]J      // remote documents by IRI
	inbox  map[string]string // actor -> document inbox
	nested map[string]bool   // actors that appear inside some collection
	anon   bool              // addressing may contain an embedded actor without id
}

func (g *obGen) build(emphasis string) {
	r := g.r
	g.docs = map[string]J{}
	g.inbox = map[string]string{}
	g.nested = map[string]bool{}
	nAct := 2 + r.Intn(5)
	queryInboxes := r.Intn(4) == 0 // a peer that tells its inboxes apart by query string only
	for i := 0; i < nAct; i++ {
		id := fmt.Sprintf("https://%s/u/p%d", hostR, i)
		in := id + "/inbox"
		if queryInboxes {
			in = fmt.Sprintf("https://%s/inbox.php?user=p%d", hostR, i)
		}
		if r.Intn(12) == 0 {
			in = g.st.Alice.Inbox // an endpoint shared with the (usual) sender: the sender's own inbox never receives its own post
		}
		if r.Intn(5) == 0 && i > 0 {
			in = g.inbox[fmt.Sprintf("https://%s/u/p%d", hostR, i-1)] // shared inbox
		}
		g.docs[id] = J{"@context": asCtx, "type": Pick(r, []string{"Person", "Service", "Group"}), "id": id, "inbox": in, "outbox": id + "/outbox"}
		if r.Intn(6) == 0 {
			// the inbox written out as an object (an OrderedCollection with an id) instead of a bare IRI
			g.docs[id]["inbox"] = J{"type": "OrderedCollection", "id": in}
		}
		g.inbox[id] = in
		g.actors = append(g.actors, id)
		if r.Intn(6) == 0 {
			// a second address for the same actor document (a profile alias): what is served there carries the canonical id
			alias := fmt.Sprintf("https://%s/@p%d", hostR, i)
			g.docs[alias] = g.docs[id]
			g.inbox[alias] = in
			g.actors = append(g.actors, alias)
		}
	}
	g.actors = append(g.actors, g.st.Bob.ID, g.st.Carol.ID)
	g.inbox[g.st.Bob.ID] = g.st.Bob.Inbox
	g.inbox[g.st.Carol.ID] = g.st.Carol.Inbox
	g.inbox[g.st.Alice.ID] = g.st.Alice.Inbox
	nCol := r.Intn(5)
	for i := 0; i < nCol; i++ {
		g.colls = append(g.colls, fmt.Sprintf("https://%s/c/%d", hostR, i))
	}
	for i, c := range g.colls {
		typ := Pick(r, []string{"Collection", "OrderedCollection", "CollectionPage", "OrderedCollectionPage"})
		key := "items"
		if strings.HasPrefix(typ, "Ordered") {
			key = "orderedItems"
		}
		var members []interface{}
		for j, n := 0, r.Intn(5); j < n; j++ {
			if len(g.colls) > 1 && r.Intn(3) == 0 {
				members = append(members, Pick(r, g.colls)) // nested, possibly cyclic or itself
				continue
			}
			if r.Intn(14) == 0 {
				members = append(members, J{"type": "Note", "content": "an entry without any id"}) // makes the whole listing unusable
				continue
			}
			a := Pick(r, append(append([]string{}, g.actors...), g.st.Alice.ID))
			g.nested[a] = true
			if r.Intn(4) == 0 {
				members = append(members, J{"type": "Person", "id": a, "inbox": g.inbox[a]})
			} else {
				members = append(members, a)
			}
		}
		d := J{"@context": asCtx, "type": typ, "id": c}
		if len(members) > 0 || r.Bool() {
			if members == nil {
				members = []interface{}{}
			}
			d[key] = members
		}
		g.docs[c] = d
		_ = i
	}
}

// address draws 0..3 entries for one addressing property.
func (g *obGen) address(max int) []interface{} {
	r := g.r
	var out []interface{}
	for i, n := 0, r.Intn(max+1); i < n; i++ {
		switch k := r.Intn(12); {
		case k < 6:
			a := Pick(r, g.actors)
			if r.Intn(4) == 0 {
				out = append(out, J{"type": "Person", "id": a, "inbox": g.inbox[a]})
			} else {
				out = append(out, a)
			}
		case k < 9 && len(g.colls) > 0:
			out = append(out, Pick(r, g.colls))
		case k == 9:
			out = append(out, Pick(r, []string{publicIRI, "as:Public"}))
		case k == 10:
			out = append(out, g.st.Alice.ID)
		case k == 11 && g.anon && r.Intn(3) == 0:
			out = append(out, J{"type": "Person", "name": "somebody without an id"}) // cannot be addressed: the post cannot be delivered as asked
		default:
			if len(out) > 0 {
				out = append(out, out[r.Intn(len(out))]) // duplicate
			} else {
				out = append(out, Pick(r, g.actors))
			}
		}
	}
	return out
}

func (g *obGen) addressAll(m J, hiddenBias bool) {
	for _, p := range fiveProps {
		max := 2
		if hiddenBias && (p == "bto" || p == "bcc") {
			max = 3
		}
		if a := g.address(max); len(a) > 0 {
			if len(a) == 1 && g.r.Bool() {
				m[p] = a[0]
			} else {
				m[p] = a
			}
		}
	}
}

func (g *obGen) note(i int) J {
	n := J{"type": Pick(g.r, []string{"Note", "Article", "Image"}), "content": fmt.Sprintf("c%d", i)}
	if g.r.Intn(3) == 0 {
		n["published"] = "2020-02-0" + fmt.Sprint(1+i) + "T10:00:00Z"
	}
	if g.r.Intn(2) == 0 {
		var at []interface{}
		for j, k := 0, 1+g.r.Intn(2); j < k; j++ {
			at = append(at, Pick(g.r, append([]string{g.st.Alice.ID, caseVariant(g.st.Alice.ID), caseVariant(g.actors[0])}, g.actors...)))
		}
		n["attributedTo"] = at
	}
	return n
}

// post builds one outbox post.
func (g *obGen) post(i int, hiddenBias bool) J {
	r := g.r
	switch k := r.Intn(10); {
	case k < 3: // bare object
		n := g.note(i)
		n["@context"] = asCtx
		g.addressAll(n, hiddenBias)
		return n
	case k < 7: // Create with 1..3 embedded objects
		var objs []interface{}
		for j, m := 0, 1+r.Intn(3); j < m; j++ {
			o := g.note(10*i + j)
			g.addressAll(o, hiddenBias)
			objs = append(objs, o)
		}
		a := J{"@context": asCtx, "type": "Create"}
		if r.Intn(5) > 0 {
			var act []interface{}
			act = append(act, g.st.Alice.ID)
			if r.Intn(4) == 0 {
				act = append(act, Pick(r, g.actors))
			}
			a["actor"] = act
		}
		if len(objs) == 1 && r.Bool() {
			a["object"] = objs[0]
		} else {
			a["object"] = objs
		}
		g.addressAll(a, hiddenBias)
		return a
	default: // other activity types: id / store / outbox / deliver ordering
		typ := Pick(r, []string{"Like", "Announce", "Follow", "Listen", "Arrive", "Accept", "Reject", "Block", "Add", "Activity", "Offer"})
		a := J{"@context": asCtx, "type": typ, "actor": g.st.Alice.ID, "object": Pick(r, []string{g.st.RNote, g.st.Dave, g.st.Note1})}
		if hiddenBias && r.Intn(3) == 0 && typ != "Arrive" {
			// a mixed object list: references and embedded values (which may carry hidden recipients of their own)
			emb := J{"type": "Note", "id": g.st.RNote + "/emb", "content": "embedded", "bto": Pick(r, g.actors)}
			if r.Bool() {
				emb["bcc"] = []string{Pick(r, g.actors)}
			}
			lst := []interface{}{a["object"], emb}
			if r.Bool() {
				lst = []interface{}{emb, a["object"]}
			}
			if r.Intn(3) == 0 {
				lst = append(lst, g.st.Note2)
			}
			a["object"] = lst
		}
		if typ == "Add" {
			a["target"] = g.st.Col1
		}
		if hiddenBias && r.Intn(4) == 0 {
			// activities that need no object: intransitive ones, or ones that speak through target / origin only
			switch typ {
			case "Announce", "Listen", "Accept", "Reject", "Arrive":
				delete(a, "object")
				a["type"] = Pick(r, []string{typ, "Leave", "Join", "Offer", "Travel"})
				if r.Bool() {
					a["target"] = g.st.RNote
				}
			}
		}
		g.addressAll(a, hiddenBias)
		return a
	}
}

type obExpect struct {
	Limit  int               `json:"limit"`
	Stored map[string]string `json:"stored"`
}

func genOutbox(r *Rng, prop string, k int, tier string) *RunSpec {
	o := defaultOpt()
	o.DeliverDepth = 1 + r.Intn(4)
	switch r.Intn(6) {
	case 0:
		o.Social, o.Federating = true, false
	case 1:
		o.Social, o.Federating = false, true
	}
	switch r.Intn(6) {
	case 0, 1:
		o.Transport = "queued"
	case 2:
		o.Transport = "httpsig" // the real HttpSigTransport over the simulated network
	}
	o.QueryActor = prop == "C05" && r.Intn(3) == 0
	st := newStd(o)
	if prop == "C05" && r.Intn(3) == 0 {
		// the application handles some client activity types itself ('other') or adds to the default ('wrapped'); never Create,
		// whose default behaviour is what this property describes
		cbs := map[string]string{}
		for _, t := range []string{"Update", "Delete", "Follow", "Like", "Add", "Remove", "Undo", "Block", "Listen"} {
			switch r.Intn(4) {
			case 0:
				cbs[t] = "other"
			case 1:
				cbs[t] = "wrapped"
			}
		}
		st.W.Servers[0].SocCb = cbs
	}
	g := &obGen{r: r, st: st, anon: prop == "C03"}
	g.build(prop)
	// remote documents and fates
	fate := map[string]string{}
	for _, id := range sortedKeys(g.docs) {
		st.W.Remote = append(st.W.Remote, DocSpec{id, mustJSON(g.docs[id])})
		if r.Intn(7) == 0 {
			fate[id] = Pick(r, []string{"unreachable", "nonjson", "unknowntype", "notobject", "trailing", "nocontext", "notype"})
		}
	}
	if prop != "C02" && r.Intn(2) == 0 {
		fate = map[string]string{} // fault-free class
	}
	st.W.Fate = fate
	// application-stored inboxes for a random subset of actors
	stored := map[string]string{}
	for _, a := range append(append([]string{}, g.actors...), st.Alice.ID) {
		if r.Intn(3) == 0 {
			in := g.inbox[a]
			if !g.nested[a] && r.Intn(3) == 0 && hostOf(a) == hostR {
				in = a + "/stored-inbox"
			}
			stored[a] = in
		}
	}
	st.W.Servers[0].StoredInbox = stored
	nPosts := 1
	if prop == "C05" {
		nPosts = 1 + r.Intn(3)
		if tier == "thorough" {
			nPosts = 1 + r.Intn(8)
		}
	}
	var reqs []ReqSpec
	twoQuery := r.Intn(3) == 0
	for i := 0; i < nPosts; i++ {
		body := g.post(i, prop == "C03")
		box := st.Alice
		if nPosts > 1 && r.Intn(4) == 0 {
			box = st.Carol
		}
		if o.QueryActor && r.Bool() {
			box = Pick(r, []*ActorDir{st.Quinn, st.Quinn, st.Quent}) // outboxes whose IRIs carry a query string (and differ only there)
		}
		if o.QueryActor && nPosts >= 2 && i < 2 && twoQuery {
			// a bare object to each of two outboxes that differ only in their query string
			box = []*ActorDir{st.Quinn, st.Quent}[i]
			body = g.note(i)
			body["@context"] = asCtx
			g.addressAll(body, false)
		}
		var rq ReqSpec
		if !o.Social || (o.Federating && r.Intn(5) == 0) {
			rq = sendReq(fmt.Sprintf("r%d", i), box, hostA, body)
		} else {
			rq = outboxReq(fmt.Sprintf("r%d", i), box, hostA, body)
		}
		if i > 0 {
			rq.After = []string{fmt.Sprintf("r%d", i-1)} // a history: one after another
		}
		reqs = append(reqs, rq)
	}
	if prop == "C02" && o.Social && r.Intn(5) == 0 {
		// a second post from another outbox, overlapping with the first (any state shared between deliveries would show)
		rq := outboxReq("r1", st.Carol, hostA, g.post(7, false))
		reqs = append(reqs, rq)
	}
	if prop == "C03" && o.Social && r.Intn(4) == 0 {
		// history: a client creates a note with hidden recipients, deletes it, and the Tombstone is fetched
		reqs = nil
		nb := J{"@context": asCtx, "type": "Note", "content": "short lived"}
		g.addressAll(nb, true)
		nb["bto"] = []string{Pick(r, g.actors)}
		reqs = append(reqs, outboxReq("r0", st.Alice, hostA, nb))
		noteID := fmt.Sprintf("https://%s/note/r0-2", hostA) // the id SimDB.NewID hands to the wrapped note (second id of task r0)
		del := outboxReq("r1", st.Alice, hostA, J{"@context": asCtx, "type": "Delete", "actor": st.Alice.ID, "object": noteID, "to": Pick(r, g.actors)})
		del.After = []string{"r0"}
		get := handlerReq("r2", hostA, noteID)
		get.After = []string{"r1"}
		reqs = append(reqs, del, get)
	}
	if prop == "C03" {
		// GETs of stored values with bto/bcc at object depth 0..4
		depth := r.Intn(5)
		inner := J{"type": "Note", "id": "https://" + hostA + "/n/h", "content": "deep", "bto": st.Dave, "bcc": []string{st.Erin}}
		var doc J = inner
		for d := 0; d < depth; d++ {
			// Relationship is the one non-activity type with an 'object' property
			doc = J{"type": Pick(r, []string{"Create", "Announce", "Like", "Relationship", "Offer"}), "id": fmt.Sprintf("https://%s/n/h%d", hostA, d), "actor": st.Alice.ID, "object": doc}
			if doc["type"] == "Relationship" {
				delete(doc, "actor")
				doc["subject"] = st.Alice.ID
			}
			if r.Bool() {
				doc["bcc"] = st.Dave
			}
		}
		if r.Intn(3) == 0 {
			// the same value embedded twice (once directly, once inside the chain): each copy is a copy
			doc = J{"type": "Announce", "id": fmt.Sprintf("https://%s/n/htwice", hostA), "actor": st.Alice.ID, "object": []interface{}{inner, doc}}
			if r.Bool() {
				doc["object"] = []interface{}{doc["object"].([]interface{})[1], inner}
			}
		}
		doc["@context"] = asCtx
		id := doc["id"].(string)
		st.W.Servers[0].Docs = append(st.W.Servers[0].Docs, DocSpec{id, mustJSON(doc)})
		reqs = append(reqs, handlerReq(fmt.Sprintf("r%d", len(reqs)), hostA, id))
		// a Follow carrying bto/bcc that is auto-accepted
		if o.Federating && r.Bool() {
			f := st.act("Follow", J{"object": st.Alice.ID, "bto": st.Erin, "bcc": []string{st.Dave, st.Bob.ID}})
			reqs = append(reqs, inboxReq(fmt.Sprintf("r%d", len(reqs)), st.Alice, hostA, f))
		}
	}
	if prop == "C03" && r.Intn(8) == 0 {
		// the stored document of the sending actor is incomplete (no inbox): the post must fail, never leak
		st.W.Servers[0].Docs = append(st.W.Servers[0].Docs, DocSpec{st.Alice.ID, mustJSON(J{"@context": asCtx, "type": "Person", "id": st.Alice.ID, "outbox": st.Alice.Outbox})})
	}
	if prop == "C03" && r.Intn(8) == 0 {
		// the same documents in the vocabulary-prefixed spelling: under that @context as:bto IS bto
		al := Pick(r, []string{"as", "a"})
		for i := range reqs {
			if reqs[i].Body != nil && (reqs[i].Kind == "postOutbox" || reqs[i].Kind == "send") {
				if ab, ok := aliasBody(reqs[i].Body, al); ok {
					reqs[i].Body = ab
				}
			}
		}
		docs := st.W.Servers[0].Docs
		for i := range docs {
			if strings.Contains(docs[i].ID, "/n/h") {
				if ad, ok := aliasBody(docs[i].Doc, al); ok {
					docs[i].Doc = ad
				}
			}
		}
	}
	sp := mk(prop, st, reqs...)
	sp.Gen = fmt.Sprintf("outbox/%s/%d", prop, k)
	sp.MapSeed = r.U64() | 1
	sp.Expect = mustJSON(obExpect{Limit: o.DeliverDepth, Stored: stored})
	if prop == "C03" && r.Intn(2) == 0 {
		sp.Sched = SchedSpec{Strategy: "random", Seed: r.U64()} // GET concurrent with the delivery
		for i := range sp.Requests {
			if sp.Requests[i].Kind == "handler" && sp.Requests[i].ID != "r2" {
				sp.Requests[i].After = nil
			}
		}
	}
	if prop == "C02" && len(sp.Requests) > 1 {
		sp.Sched = SchedSpec{Strategy: Pick(r, []string{"random", "sticky", "pct"}), Seed: r.U64(), Depth: 2, Horizon: 150}
	}
	return sp
}

// ---- world view for the models ------------------------------------------------------

// docFor answers what a Dereference of iri yields according to the world
// description (never by calling library code): (document, fate).
func docFor(res *Result, iri string) (J, string) {
	w := &res.Spec.World
	if f, ok := w.Fate[iri]; ok {
		return nil, f
	}
	if res.faultedDeref == nil {
		// the fault plan is part of the world the models see: a Dereference made to fail makes that IRI unreachable
		res.faultedDeref = map[string]bool{}
		for _, e := range res.Sim.Log {
			if e.Kind == "tp.Dereference" && e.Fault && (res.faultTask == "" || e.Task == res.faultTask || strings.HasPrefix(e.Task, res.faultTask+".")) {
				res.faultedDeref[e.ID] = true
			}
		}
	}
	if res.faultedDeref[iri] {
		return nil, "unreachable"
	}
	if len(res.Spec.Faults) > 0 && res.nestedFailed == nil {
		// a fetch answered by a simulated server whose own handling was hit by the injected fault failed as well
		res.nestedFailed = map[string]bool{}
		for _, d := range res.Sim.World.Derefs {
			if d.Res == "fail" && (res.faultTask == "" || d.Task == res.faultTask) {
				for _, f := range res.Spec.Faults {
					if strings.HasPrefix(f.Site, d.Task+".") {
						res.nestedFailed[d.IRI] = true
					}
				}
			}
		}
	}
	if res.nestedFailed[iri] {
		return nil, "unreachable"
	}
	if store, ok := res.Before[hostOf(iri)]; ok {
		if raw, ok := store[iri]; ok {
			return mustParseJ([]byte(raw)), "ok"
		}
		return nil, "absent"
	}
	for _, d := range w.Remote {
		if d.ID == iri {
			return mustParseJ(d.Doc), "ok"
		}
	}
	return nil, "absent"
}

func membersOf(d J) ([]string, bool) {
	var ids []string
	switch typeOf(d) {
	case "Collection", "CollectionPage":
		ids = idsOf(d["items"])
	case "OrderedCollection", "OrderedCollectionPage":
		ids = idsOf(d["orderedItems"])
	default:
		return nil, false
	}
	for _, id := range ids {
		if id == "" {
			return nil, true // a listing with an entry that has no id cannot be parsed: the collection is skipped as a whole
		}
	}
	return ids, true
}

// modelResolve is the C02 reference model.
func modelResolve(res *Result, activity J, senderInbox string, limit int, stored map[string]string) (inboxes []string, fetched map[string]bool) {
	var R []string
	for _, p := range fiveProps {
		for _, id := range idsOf(activity[p]) {
			if !isPublic(id) {
				R = append(R, id)
			}
		}
	}
	out := map[string]bool{}
	var level []string
	for _, a := range R {
		if in, ok := stored[a]; ok {
			out[in] = true
			res.Sim.probe("c02-stored-inbox-used")
		} else {
			level = append(level, a)
		}
	}
	fetched = map[string]bool{}
	for depth := 0; len(level) > 0 && depth < limit; depth++ {
		var next []string
		seen := map[string]bool{}
		for _, u := range level {
			if seen[u] {
				continue
			}
			seen[u] = true
			fetched[u] = true
			d, fate := docFor(res, u)
			if fate != "ok" {
				res.Sim.probe("c02-recipient-skipped-" + fate)
				continue
			}
			if mem, isColl := membersOf(d); isColl {
				next = append(next, mem...)
				res.Sim.probe("c02-collection-expanded")
				if depth+1 >= limit && len(mem) > 0 {
					res.Sim.probe("c02-depth-limit-cut")
				}
			} else if in := idOf(d["inbox"]); in != "" {
				out[in] = true
			}
		}
		level = next
	}
	delete(out, senderInbox)
	return sortedKeys(out), fetched
}

// ---- observations ---------------------------------------------------------------------

type obObs struct {
	task     *Task
	actor    *ActorDir
	newID    string
	stored   J // the activity as given to Database.Create
	storeSeq int
	creates  []Event
	setOutbox []Event
	wire     []WireMsg
	firstTp  int
	newIDs   []Event
}

func observeOutbox(res *Result, t *Task) *obObs {
	s := res.Sim
	srv := s.World.Servers[t.Srv]
	o := &obObs{task: t, actor: srv.actorByName(t.Req.Actor), firstTp: -1, storeSeq: -1}
	if t.EntryKind == "send" {
		o.newID, _ = t.Result.(string)
	} else if t.Rec != nil {
		o.newID = t.Rec.Header().Get("Location")
	}
	for _, e := range s.Log {
		if e.Task != t.ID {
			continue
		}
		switch e.Kind {
		case "db.NewID":
			o.newIDs = append(o.newIDs, e)
		case "db.Create":
			if !e.Fault {
				o.creates = append(o.creates, e)
			}
		case "db.SetOutbox":
			if !e.Fault {
				o.setOutbox = append(o.setOutbox, e)
			}
		case "tp.BatchDeliver", "tp.Deliver", "tp.Dereference":
			if o.firstTp < 0 {
				o.firstTp = e.Seq
			}
		}
	}
	// the activity: the value whose id was returned; for a request that returned none, the stored value of an activity type
	// (which of the freshly issued ids the activity gets is the library's business)
	actID := o.newID
	if actID == "" {
		for _, e := range o.creates {
			if m, ok := normalise(e.Arg).(map[string]interface{}); ok && isActivityType(typeOf(m)) {
				actID = e.ID
			}
		}
	}
	for _, e := range o.creates {
		if e.ID == actID {
			if m, ok := normalise(e.Arg).(map[string]interface{}); ok {
				o.stored = m
				o.storeSeq = e.Seq
			}
		}
	}
	for _, wm := range s.World.Wire {
		if wm.Task == t.ID && wm.Box == o.actor.Outbox {
			o.wire = append(o.wire, wm)
		}
	}
	return o
}

func nestedFailure(res *Result, t *Task) bool {
	for _, c := range res.Tasks {
		if strings.HasPrefix(c.ID, t.ID+".") && c.EntryKind == "postInbox" {
			if c.Err != nil || !c.Handled || c.Rec.Status >= 300 {
				return true
			}
		}
	}
	return false
}

func isOutboxTask(t *Task) bool {
	return t.Req != nil && t.Parent == nil && (t.EntryKind == "postOutbox" || t.EntryKind == "send")
}

func taskFaulted(res *Result, t *Task) bool {
	for _, f := range res.Spec.Faults {
		if strings.HasPrefix(f.Site, t.ID+"|") || strings.HasPrefix(f.Site, t.ID+".") {
			return true
		}
	}
	return false
}

// ---- C02 oracle -------------------------------------------------------------------------

func oracleC02(c *DriveCtx, res *Result) {
	s := res.Sim
	var ex obExpect
	if res.Spec.Expect == nil {
		return
	}
	mustUnmarshal(res.Spec.Expect, &ex)
	for _, t := range res.Tasks {
		if !isOutboxTask(t) || !t.done {
			continue
		}
		res.faultedDeref, res.nestedFailed, res.faultTask = nil, nil, t.ID // the model sees this request's failed fetches only
		if taskFaulted(res, t) {
			// fault class: only a post that still reports success is judged (a swallowed Database error shows as wrong recipients);
			// a failed Dereference is part of the world the model sees
			if t.Err != nil {
				// ... except that a recipient which cannot be fetched - whatever error the transport reports for it - is
				// skipped: when fetches are all that was made to fail, the delivery may not fail because of them
				onlyFetch := true
				for _, f := range res.Spec.Faults {
					if (strings.HasPrefix(f.Site, t.ID+"|") || strings.HasPrefix(f.Site, t.ID+".")) && !strings.HasPrefix(f.Site, t.ID+"|tp.Dereference|") {
						onlyFetch = false
					}
				}
				if onlyFetch && !nestedFailure(res, t) && senderComplete(res, t) && s.World.Servers[t.Srv].Spec.Federating {
					s.violate("C02", "delivery-failed", "deliver:fetch-error", fmt.Sprintf("%s failed with %q although only a recipient's Dereference was made to fail; recipients that cannot be fetched are skipped", t.ID, trunc(t.Err.Error(), 120)))
				}
				continue
			}
			s.probe("c02-accepted-despite-fault")
		}
		srv := s.World.Servers[t.Srv]
		if !srv.Spec.Federating {
			continue
		}
		o := observeOutbox(res, t)
		if o.stored == nil {
			continue // nothing was stored: not an accepted post (C05/C10 territory)
		}
		if typeOf(o.stored) == "Block" && srv.Spec.Social {
			continue // never delivered (C16)
		}
		senderDoc := storedDoc(res, t.Srv, o.actor.ID) // the sender's own document comes from the Database, not from the network
		want, fetched := modelResolve(res, o.stored, idOf(senderDoc["inbox"]), ex.Limit, ex.Stored)
		// (c) what must not be dereferenced: Public, and whatever lies only beyond the configured depth
		_, deep := modelResolve(res, o.stored, idOf(senderDoc["inbox"]), ex.Limit+8, ex.Stored)
		// an IRI named twice may have failed to fetch once (the injected fault hits one call) and been fetched the other time:
		// using either answer is legal, for the recipients and for what was worth fetching
		var want2 []string
		fetched2 := map[string]bool{}
		if taskFaulted(res, t) {
			keepF, keepN := res.faultedDeref, res.nestedFailed
			okFetch := map[string]bool{}
			for _, d := range s.World.Derefs {
				if d.Task == t.ID && d.Res == "ok" {
					okFetch[d.IRI] = true
				}
			}
			lenF, lenN := map[string]bool{}, map[string]bool{}
			for iri := range keepF {
				if !okFetch[iri] {
					lenF[iri] = true
				}
			}
			for iri := range keepN {
				if !okFetch[iri] {
					lenN[iri] = true
				}
			}
			res.faultedDeref, res.nestedFailed = lenF, lenN
			want2, fetched2 = modelResolve(res, o.stored, idOf(senderDoc["inbox"]), ex.Limit, ex.Stored)
			res.faultedDeref, res.nestedFailed = keepF, keepN
		}
		for _, d := range s.World.Derefs {
			if d.Task != t.ID {
				continue
			}
			if isPublic(d.IRI) {
				s.violate("C02", "public-dereferenced", "prepare", "Public was dereferenced")
			} else if !fetched[d.IRI] && !fetched2[d.IRI] && deep[d.IRI] {
				s.violate("C02", "dereferenced-beyond-depth", "prepare", fmt.Sprintf("%s dereferenced %s, which lies beyond depth %d (activity %s)", t.ID, d.IRI, ex.Limit, canonJSON(addressing(o.stored))))
			}
		}
		batches := 0
		var got []string
		for _, wm := range o.wire {
			if wm.Batch {
				batches++
				got = append(got, wm.Recipients...)
			} else {
				s.violate("C02", "not-batched", "deliver", "payload handed over with Deliver instead of one BatchDeliver")
			}
		}
		// (b) skipped recipients never fail the delivery
		if t.Err != nil && batches == 0 && !nestedFailure(res, t) {
			s.violate("C02", "delivery-failed", "deliver", fmt.Sprintf("%s failed with %q although no Database/Transport call was made to fail; unreachable or garbled recipients must be skipped (fates %v; addressing %s)", t.ID, trunc(t.Err.Error(), 100), res.Spec.World.Fate, canonJSON(addressing(o.stored))))
			continue
		}
		if t.Err != nil {
			continue
		}
		// (d) one hand-over with all inboxes
		if batches > 1 || (batches == 0 && len(want) > 0) {
			s.violate("C02", "batch-count", "deliver", fmt.Sprintf("%d BatchDeliver calls for one federated activity; expected recipients %v", batches, want))
			continue
		}
		// (a) the recipient set
		if len(sortedSet(got)) != len(got) {
			s.violate("C02", "duplicate-recipients", "deliver", fmt.Sprintf("recipient list has duplicates: %v", got))
		}
		okSet := sameSet(got, want)
		if !okSet && taskFaulted(res, t) {
			// an IRI reached along several paths (nested, cyclic collections) is fetched several times, at different depths; the one
			// injected failure costs whatever hung on that one fetch: everything the strict reading (that IRI never answers) requires
			// must be there, nothing beyond the lenient reading (every fetch answers) may be
			okSet = sameSet(got, want2) || (subset(want, got) && subset(got, want2))
		}
		if !okSet {
			s.violate("C02", "recipient-set", "deliver", fmt.Sprintf("transport got %v, model expects %v (limit %d, stored %v, fates %v, addressing %s)", sortedSet(got), want, ex.Limit, ex.Stored, res.Spec.World.Fate, canonJSON(addressing(o.stored))))
		}
	}
}

// senderComplete: the stored document of the sending actor has an inbox (otherwise the post must fail).
func senderComplete(res *Result, t *Task) bool {
	srv := res.Sim.World.Servers[t.Srv]
	a := srv.actorByName(t.Req.Actor)
	if a == nil {
		return false
	}
	d := storedDoc(res, t.Srv, a.ID)
	return d != nil && idOf(d["inbox"]) != ""
}

func storedDoc(res *Result, host, id string) J {
	raw, ok := res.Before[host][id]
	if !ok {
		return nil
	}
	return mustParseJ([]byte(raw))
}

func addressing(m J) J {
	out := J{}
	for _, p := range fiveProps {
		if v, ok := m[p]; ok {
			out[p] = idsOf(v)
		}
	}
	return out
}

// ---- C03 oracle (beyond the always-on wire / handler monitors) ---------------------------------

// addressingUnusable: some to/bto/cc/bcc/audience entry (on the posted value or one of its embedded objects) has no id.
func addressingUnusable(body []byte) bool {
	m, err := parseJ(body)
	if err != nil {
		return false
	}
	bad := func(v J) bool {
		for _, p := range fiveProps {
			for _, e := range aslist(v[p]) {
				if idOf(e) == "" {
					return true
				}
			}
		}
		return false
	}
	if bad(m) {
		return true
	}
	for _, o := range aslist(m["object"]) {
		if om, ok := o.(map[string]interface{}); ok && bad(om) {
			return true
		}
	}
	return false
}

func oracleC03(c *DriveCtx, res *Result) {
	// hidden recipients still receive the delivery: C02's model on the stored activity includes bto/bcc
	s := res.Sim
	var ex obExpect
	if res.Spec.Expect == nil {
		return
	}
	mustUnmarshal(res.Spec.Expect, &ex)
	for _, t := range res.Tasks {
		if !isOutboxTask(t) || !t.done || taskFaulted(res, t) {
			continue
		}
		res.faultedDeref, res.nestedFailed, res.faultTask = nil, nil, t.ID
		if t.Err != nil && (nestedFailure(res, t) || !senderComplete(res, t) || addressingUnusable(t.Req.Body)) {
			continue // a peer refused the delivery, the sender's own document is unusable, or somebody addressed has no id: the post legitimately fails
		}
		srv := s.World.Servers[t.Srv]
		if !srv.Spec.Federating {
			// Social only: nothing may reach a transport at all
			for _, wm := range s.World.Wire {
				if wm.Task == t.ID {
					s.violate("C03", "delivered-without-federation", "deliver", "a payload reached the transport although the Federating protocol is disabled")
				}
			}
			continue
		}
		o := observeOutbox(res, t)
		if o.stored == nil || (typeOf(o.stored) == "Block" && srv.Spec.Social) {
			continue
		}
		senderDoc := storedDoc(res, t.Srv, o.actor.ID) // the sender's own document comes from the Database, not from the network
		// hidden recipients: those of the stored activity and, where the Create is normalised (Social) or wraps a bare object,
		// those the client put on the embedded objects
		var hb []string
		for _, p := range []string{"bto", "bcc"} {
			hb = append(hb, idsOf(o.stored[p])...)
		}
		if posted, err := parseJ(t.Req.Body); err == nil {
			if !isActivityType(typeOf(posted)) {
				hb = append(hb, idsOf(posted["bto"])...)
				hb = append(hb, idsOf(posted["bcc"])...)
			} else if typeOf(posted) == "Create" && srv.Spec.Social {
				for _, ob := range aslist(posted["object"]) {
					if om, ok := ob.(map[string]interface{}); ok {
						hb = append(hb, idsOf(om["bto"])...)
						hb = append(hb, idsOf(om["bcc"])...)
					}
				}
			}
		}
		hidden := J{"bto": hb}
		wantHidden, _ := modelResolve(res, hidden, idOf(senderDoc["inbox"]), ex.Limit, ex.Stored)
		var got []string
		for _, wm := range o.wire {
			got = append(got, wm.Recipients...)
		}
		gs := setOf(got)
		for _, in := range wantHidden {
			if !gs[in] {
				s.violate("C03", "hidden-recipient-not-delivered", "deliver", fmt.Sprintf("inbox %s of a bto/bcc recipient did not receive the delivery (got %v)", in, sortedSet(got)))
			}
		}
	}
}

// ---- C05 oracle ------------------------------------------------------------------------------

// caseVariant: the IRI with the last path segment capitalised - another IRI, hence another actor.
func caseVariant(iri string) string {
	i := strings.LastIndex(iri, "/")
	if i < 0 || i+1 >= len(iri) {
		return iri
	}
	return iri[:i+1] + strings.ToUpper(iri[i+1:i+2]) + iri[i+2:]
}

func unionIDs(lists ...[]string) []string {
	var all []string
	for _, l := range lists {
		all = append(all, l...)
	}
	return sortedSet(all)
}

func subset(a, b []string) bool {
	bs := setOf(b)
	for _, x := range a {
		if !bs[x] {
			return false
		}
	}
	return true
}

func isActivityType(t string) bool {
	switch t {
	case "Accept", "Add", "Announce", "Arrive", "Block", "Create", "Delete", "Dislike", "Flag", "Follow", "Ignore", "Invite", "Join", "Leave",
		"Like", "Listen", "Move", "Offer", "Question", "Read", "Reject", "Remove", "TentativeAccept", "TentativeReject", "Travel", "Undo", "Update", "View", "Activity", "IntransitiveActivity":
		return true
	}
	return false
}

func oracleC05(c *DriveCtx, res *Result) {
	s := res.Sim
	accepted := map[string][]string{} // outbox -> returned ids in completion order
	failedOn := map[string]bool{}
	for _, t := range res.Tasks {
		if !isOutboxTask(t) || !t.done {
			continue
		}
		srv := s.World.Servers[t.Srv]
		o := observeOutbox(res, t)
		posted, err := parseJ(t.Req.Body)
		if err != nil {
			continue
		}
		ok := t.Err == nil && (t.EntryKind == "send" || t.Rec.Status == 201)
		if !ok {
			failedOn[o.actor.Outbox] = true // a post that failed after its outbox write legitimately leaves its id there
		}
		// (4) nothing is delivered once a persistence step failed
		persistFailed := -1
		for _, e := range s.Log {
			if e.Task == t.ID && e.Fault && strings.HasPrefix(e.Kind, "db.") && e.Kind != "db.Unlock" {
				persistFailed = e.Seq
				break
			}
		}
		if persistFailed >= 0 {
			for _, wm := range o.wire {
				if wm.Seq > persistFailed {
					s.violate("C05", "delivered-after-persistence-failure", "deliver", fmt.Sprintf("%s: a Database call failed at event %d and the activity was still handed to the transport at event %d", t.ID, persistFailed, wm.Seq))
				}
			}
		}
		if !ok {
			// a post the application itself turned down (its callback returned an error, nothing else went wrong) is not an
			// accepted post: it must not be listed, or the outbox no longer lists exactly the returned ids
			cbOnly, listed := false, -1
			for _, e := range s.Log {
				if e.Task != t.ID {
					continue
				}
				if e.Fault {
					cbOnly = strings.HasPrefix(e.Kind, "app.cb.")
					if !cbOnly {
						break
					}
				}
				if e.Kind == "db.SetOutbox" && !e.Fault {
					listed = e.Seq
				}
			}
			if cbOnly && listed >= 0 && t.Panic == nil {
				s.violate("C05", "listed-although-rejected", "outbox", fmt.Sprintf("%s: the application's callback returned an error, the post failed (%v) and its id was still put into the outbox at event %d", t.ID, t.Err, listed))
			}
			continue
		}
		if o.newID == "" {
			s.violate("C05", "no-id-returned", t.EntryKind, "accepted post without Location / returned id")
			continue
		}
		accepted[o.actor.Outbox] = append(accepted[o.actor.Outbox], o.newID)
		// (2) ordering inside the request
		if o.stored == nil {
			s.violate("C05", "activity-not-stored", "store", fmt.Sprintf("%s returned id %s but no Database.Create of that id happened", t.ID, o.newID))
			continue
		}
		fresh := false
		for _, e := range o.newIDs {
			if e.Res == o.newID {
				fresh = true
			}
		}
		if !fresh {
			s.violate("C05", "id-not-fresh", "id", fmt.Sprintf("%s: returned id %s was not issued by Database.NewID in this request", t.ID, o.newID))
		}
		setSeq := -1
		for _, e := range o.setOutbox {
			ids, _ := normalise(e.Arg).([]interface{})
			cnt := 0
			for _, x := range ids {
				if x == o.newID {
					cnt++
				}
			}
			if cnt > 0 {
				setSeq = e.Seq
				if cnt != 1 || ids[0] != o.newID {
					s.violate("C05", "outbox-position", "outbox", fmt.Sprintf("%s: the outbox written is %v; the new id %s must be at the front exactly once", t.ID, ids, o.newID))
				}
			}
		}
		if setSeq < 0 {
			s.violate("C05", "not-in-outbox", "outbox", fmt.Sprintf("%s: id %s was never written to the outbox", t.ID, o.newID))
		} else if setSeq < o.storeSeq {
			s.violate("C05", "outbox-before-store", "outbox", "the outbox was written before the activity was stored")
		}
		for _, wm := range o.wire {
			if wm.Seq < o.storeSeq || (setSeq >= 0 && wm.Seq < setSeq) {
				s.violate("C05", "delivered-before-stored", "deliver", fmt.Sprintf("%s: transport hand-over at event %d precedes store (%d) / outbox write (%d)", t.ID, wm.Seq, o.storeSeq, setSeq))
			}
			if pm, err := parseJ([]byte(wm.Payload)); err == nil && idOf(pm) != o.newID {
				s.violate("C05", "payload-id", "deliver", fmt.Sprintf("payload id %s differs from the returned id %s", idOf(pm), o.newID))
			}
		}
		// (1) wrapping and normalisation
		A0 := posted
		wrapped := !isActivityType(typeOf(posted))
		if wrapped {
			if typeOf(o.stored) != "Create" {
				s.violate("C05", "not-wrapped", "wrap", fmt.Sprintf("a bare %s was stored as %s, not wrapped in a Create", typeOf(posted), typeOf(o.stored)))
				continue
			}
			A0 = J{"type": "Create", "actor": o.actor.ID, "object": posted}
			for _, p := range fiveProps {
				if v, ok := posted[p]; ok {
					A0[p] = idsOf(v)
				}
			}
			if v, ok := posted["published"]; ok {
				A0["published"] = v
			}
			if !sameSet(idsOf(o.stored["actor"]), unionIDs([]string{o.actor.ID}, attrOfObjects(A0, srv.Spec.Social))) {
				s.violate("C05", "wrap-actor", "wrap", fmt.Sprintf("wrapping Create has actor %v, expected the outbox owner %s", idsOf(o.stored["actor"]), o.actor.ID))
			}
			if pv, ok := posted["published"]; ok && canonJSON(o.stored["published"]) != canonJSON(pv) {
				s.violate("C05", "wrap-published", "wrap", fmt.Sprintf("published %v not copied to the Create (has %v)", pv, o.stored["published"]))
			}
		}
		if wrapped {
			// the wrapping Create copies the object's addressing (whatever the protocols enabled)
			for _, p := range fiveProps {
				if !subset(idsOf(posted[p]), idsOf(o.stored[p])) {
					s.violate("C05", "wrap-addressing-not-copied", "wrap:"+p, fmt.Sprintf("the object's %s %v was not copied to the wrapping Create (has %v)", p, sortedSet(idsOf(posted[p])), sortedSet(idsOf(o.stored[p]))))
				}
			}
			if srv.actorByName(t.Req.Actor) != nil && !contains(idsOf(o.stored["actor"]), o.actor.ID) {
				s.violate("C05", "wrap-actor", "wrap", fmt.Sprintf("wrapping Create has actor %v; the owner of the outbox posted to is %s", idsOf(o.stored["actor"]), o.actor.ID))
			}
		}
		if typeOf(o.stored) != typeOf(A0) {
			s.violate("C05", "type-changed", "store", fmt.Sprintf("posted %s stored as %s", typeOf(A0), typeOf(o.stored)))
			continue
		}
		if typeOf(A0) != "Create" {
			// other activity types: addressing is kept as posted
			for _, p := range fiveProps {
				if !sameSet(idsOf(o.stored[p]), idsOf(A0[p])) {
					s.violate("C05", "addressing-changed", "store", fmt.Sprintf("%s of a %s changed from %v to %v", p, typeOf(A0), idsOf(A0[p]), idsOf(o.stored[p])))
				}
			}
			continue
		}
		objs0 := aslist(A0["object"])
		objsS := aslist(o.stored["object"])
		if len(objs0) != len(objsS) {
			s.violate("C05", "object-count", "store", fmt.Sprintf("Create posted with %d objects stored with %d", len(objs0), len(objsS)))
			continue
		}
		// every embedded object has a fresh id, all distinct
		idsSeen := map[string]bool{o.newID: true}
		for i, os := range objsS {
			om, _ := os.(map[string]interface{})
			oid := idOf(om)
			issued := false
			for _, e := range o.newIDs {
				if e.Res == oid {
					issued = true
				}
			}
			if om == nil || oid == "" || !issued || idsSeen[oid] {
				s.violate("C05", "object-id", "id", fmt.Sprintf("embedded object %d of the Create has id %q (must be a fresh, distinct id from NewID)", i, oid))
			}
			idsSeen[oid] = true
		}
		if !srv.Spec.Social {
			continue
		}
		// Social: attribution and recipient normalisation, each object stored
		actors0 := idsOf(A0["actor"])
		var attrAll []string
		for _, ob := range objs0 {
			if om, ok := ob.(map[string]interface{}); ok {
				attrAll = append(attrAll, idsOf(om["attributedTo"])...)
			}
		}
		if _, hasActor := A0["actor"]; hasActor {
			if !sameSet(idsOf(o.stored["actor"]), unionIDs(actors0, attrAll)) {
				s.violate("C05", "actor-normalisation", "create", fmt.Sprintf("Create actors %v, expected union of actors %v and attributedTo %v", idsOf(o.stored["actor"]), actors0, attrAll))
			}
		}
		for _, p := range fiveProps {
			var fromObjs []string
			for _, ob := range objs0 {
				if om, ok := ob.(map[string]interface{}); ok {
					fromObjs = append(fromObjs, idsOf(om[p])...)
				}
			}
			wantA := unionIDs(idsOf(A0[p]), fromObjs)
			if !sameSet(idsOf(o.stored[p]), wantA) {
				s.violate("C05", "recipient-normalisation-activity", "create:"+p, fmt.Sprintf("activity %s is %v, expected the union %v", p, sortedSet(idsOf(o.stored[p])), wantA))
			}
		}
		for i := range objs0 {
			om0, _ := objs0[i].(map[string]interface{})
			omS, _ := objsS[i].(map[string]interface{})
			if om0 == nil || omS == nil {
				continue
			}
			if !sameSet(idsOf(omS["attributedTo"]), unionIDs(idsOf(om0["attributedTo"]), actors0)) {
				s.violate("C05", "attribution-normalisation", "create", fmt.Sprintf("object %d attributedTo %v, expected %v ∪ %v", i, idsOf(omS["attributedTo"]), idsOf(om0["attributedTo"]), actors0))
			}
			for _, p := range fiveProps {
				min := unionIDs(idsOf(om0[p]), idsOf(A0[p]))
				got := idsOf(omS[p])
				if !subset(min, got) || !subset(got, idsOf(o.stored[p])) {
					s.violate("C05", "recipient-normalisation-object", "create:"+p, fmt.Sprintf("object %d %s is %v; must contain %v and stay within the activity's %v", i, p, sortedSet(got), min, sortedSet(idsOf(o.stored[p]))))
				}
			}
			// stored on its own, before anything is delivered
			found := false
			for _, e := range o.creates {
				if e.ID == idOf(omS) && (o.firstTp < 0 || e.Seq < o.firstTp) {
					found = true
				}
			}
			if !found {
				s.violate("C05", "object-not-stored", "create", fmt.Sprintf("embedded object %d (%s) was not stored (before any delivery)", i, idOf(omS)))
			}
		}
	}
	// durability: whatever reached the wire from an outbox is stored and listed (whatever failed or crashed afterwards)
	for _, wm := range s.World.Wire {
		srv := s.World.Servers[wm.Srv]
		if srv == nil {
			continue
		}
		for _, a := range srv.Actors {
			if a.Outbox != wm.Box || wm.Err {
				continue
			}
			pm, err := parseJ([]byte(wm.Payload))
			if err != nil {
				continue
			}
			tk := s.byID[wm.Task]
			if tk == nil || !isOutboxTask(tk) {
				continue // automatic Accept/Reject are delivered without being listed
			}
			id := idOf(pm)
			if _, ok := res.After[wm.Srv][id]; !ok {
				s.violate("C05", "wire-payload-not-stored", "deliver", fmt.Sprintf("%s was handed to the transport but is not in the database at the end of the run", id))
			}
			if !contains(collIDs(res.After[wm.Srv][a.Outbox], ""), id) {
				s.violate("C05", "wire-payload-not-in-outbox", "deliver", fmt.Sprintf("%s was handed to the transport but is not listed in %s", id, a.Outbox))
			}
		}
	}
	// (3) history: outbox lists exactly the returned ids, newest first
	post := collectionsOf(res.After)
	pre := collectionsOf(res.Before)
	sequential := true
	for i, r := range res.Spec.Requests {
		if i > 0 && len(r.After) == 0 && (r.Kind == "postOutbox" || r.Kind == "send") {
			sequential = false
		}
	}
	for _, srv := range s.World.Servers {
		for _, a := range srv.Actors {
			key := srv.Spec.Host + "|" + a.Outbox + "|orderedItems"
			var final []string
			if m, err := parseJ([]byte(res.After[srv.Spec.Host][a.Outbox])); err == nil {
				final = idsOf(m["orderedItems"])
			}
			want := append([]string(nil), accepted[a.Outbox]...)
			// newest first
			for i, j := 0, len(want)-1; i < j; i, j = i+1, j-1 {
				want[i], want[j] = want[j], want[i]
			}
			want = append(want, pre[key]...)
			anyFault := len(res.Spec.Faults) > 0 || failedOn[a.Outbox]
			if anyFault {
				// a request that failed after the outbox write legitimately leaves its id there: require only that accepted ids are present, in order
				idx := 0
				for _, id := range final {
					if idx < len(want) && id == want[idx] {
						idx++
					}
				}
				if idx != len(want) {
					s.violate("C05", "outbox-history", "outbox", fmt.Sprintf("outbox %s holds %v; accepted posts (newest first) %v must appear in that order", a.Outbox, final, want))
				}
				continue
			}
			if sequential {
				if !equalStrs(final, want) {
					s.violate("C05", "outbox-history", "outbox", fmt.Sprintf("outbox %s holds %v; after the accepted posts it must list exactly %v", a.Outbox, final, want))
				}
			} else {
				sf := append([]string(nil), final...)
				sw := append([]string(nil), want...)
				sort.Strings(sf)
				sort.Strings(sw)
				if !equalStrs(sf, sw) {
					s.violate("C05", "outbox-history", "outbox", fmt.Sprintf("outbox %s holds %v; accepted ids %v", a.Outbox, final, want))
				}
			}
			_ = post
		}
	}
}

func attrOfObjects(A0 J, social bool) []string {
	if !social {
		return nil
	}
	var out []string
	for _, ob := range aslist(A0["object"]) {
		if om, ok := ob.(map[string]interface{}); ok {
			out = append(out, idsOf(om["attributedTo"])...)
		}
	}
	return out
}

func init() {
	register(&PropDef{
		ID: "C02", Level: "exploration", Engine: "fedsim",
		Rule: "case = seeded federation graph (2-8 remote actors incl. shared inboxes, a peer server and local actors, 0-4 remote Collections/OrderedCollections/pages nested and cyclic, per-IRI fates unreachable/non-JSON/non-object/unknown-type, random subset of actors with an application-stored inbox, delivery depth 1-4) and one outbox post (client POST or Send) addressed through any of the five properties with IRIs, embedded actors, duplicates, all three Public spellings and the sender; oracle = executable recipient-resolution model on the stored activity vs the BatchDeliver recipients and the Dereference log. distinct = distinct event sequences (which IRIs are fetched and in which order is part of it).",
		QuickCases: 2000, QuickBudgetS: 150, ThoroughBudgetS: 600,
		Drive: func(c *DriveCtx, r *Rng, k int) {
			if k%10 == 0 {
				// one seam call fails: either the post fails, or (the error being of a kind the library tolerates) the recipients are still right
				seed := r.s
				c.singleFaultSweep(func() *RunSpec { return genOutbox(NewRng(seed), "C02", k, c.Tier) }, faultKindFor)
				return
			}
			c.Exec(genOutbox(r, "C02", k, c.Tier))
		},
		Oracle: oracleC02,
		Assumptions: []string{
			"'expanded to the configured depth': the limit counts dereference levels, top-level recipients being level 0",
			"an application-stored inbox differs from the document inbox only for actors that appear in no collection (the statement does not say which wins for nested members)",
			"documents that parse but lack an inbox are outside 'cannot be fetched or parsed' and are generated only under C11",
		},
	})
	register(&PropDef{
		ID: "C03", Level: "exploration", Engine: "fedsim",
		Rule: "case = the C02/C05 generator biased towards bto/bcc on the activity and on 1-3 embedded objects, Social only / Federating only (Send) / both, plus a GET of a stored value with bto/bcc at 'object' depth 0-4 (half of the cases concurrently with the delivery) and an auto-accepted Follow carrying bto/bcc; oracle = wire invariant on every payload of an outbox-bound transport and on every handler body, and the hidden recipients' inboxes (model) are among the BatchDeliver recipients.",
		QuickCases: 4000, QuickBudgetS: 150, ThoroughBudgetS: 600,
		Drive:  func(c *DriveCtx, r *Rng, k int) { c.Exec(genOutbox(r, "C03", k, c.Tier)) },
		Oracle: oracleC03,
		Assumptions: []string{"a payload counts as outbox-originated when the transport was created for an outbox IRI (forwarded payloads use the inbox IRI and are exempt by the statement)"},
	})
	register(&PropDef{
		ID: "C05", Level: "exploration", Engine: "fedsim",
		Rule: "case = history of 1-3 (thorough: 1-8) posts, one after another, to one or two outboxes of a server (bare objects, Creates with 1-3 embedded objects and overlapping recipient/attribution sets, nine other activity types; client POST or Send; Social / Federating / both); every third case is additionally swept with every single seam-call fault, every third crashes the server at a random step of the history (what reached the wire must be stored and listed in what survives); the transport is the stub (sync or queued) or, in 1/6 of the cases, the real HttpSigTransport. Oracles: wrap + normalisation model (set semantics) against the values given to Database.Create, per-request ordering NewID < object Create < activity Create < SetOutbox(front, once) < first Transport call, Location = id, outbox history, and 'nothing delivered after a failed persistence step'.",
		QuickCases: 220, QuickBudgetS: 150, ThoroughBudgetS: 600,
		Drive: func(c *DriveCtx, r *Rng, k int) {
			if k%3 == 0 {
				seed := r.s
				c.singleFaultSweep(func() *RunSpec { return genOutbox(NewRng(seed), "C05", k, c.Tier) }, faultKindFor)
				return
			}
			if k%3 == 1 {
				// crash class: the server dies at a random step of the history; durability of what was sent is judged on what survives
				seed := r.s
				clean := c.Exec(genOutbox(NewRng(seed), "C05", k, c.Tier))
				for i := 0; i < 3 && !c.Expired(); i++ {
					run := genOutbox(NewRng(seed), "C05", k, c.Tier)
					run.Faults = append(run.Faults, FaultSpec{Site: fmt.Sprintf("step|%d", 1+r.Intn(clean.Steps+2)), Kind: "crash", Arg: hostA})
					run.Gen += " crash@" + run.Faults[len(run.Faults)-1].Site
					c.Exec(run)
				}
				return
			}
			c.Exec(genOutbox(r, "C05", k, c.Tier))
		},
		Oracle: oracleC05,
		Assumptions: []string{
			"'each object having gained the activity's': object recipients must contain the object's own and the activity's original ones and stay within the activity's final union (both readings accepted)",
			"with Social disabled (Send on a federating-only actor) no normalisation is required, only id / store / outbox / deliver",
		},
	})
}
