package sim

import (
	"sort"
	"crypto/sha256"
	"encoding/binary"
	"encoding/json"
	"fmt"
	"runtime"
	"strings"
	"sync"
	"testing"

	"github.com/go-fed/activity/pub"
	"github.com/go-fed/activity/streams"
)

// Result is what one simulated execution produced.
type Result struct {
	Spec     *RunSpec
	Sim      *Sim
	Viol     []Violation
	Verdict  string
	Steps    int
	Sched    []string
	LogHash  string
	Harness  string // non-empty: the harness itself failed (exit 2 class)
	Tasks    []*Task
	Before   map[string]map[string]string // server -> id -> json, before the run
	After    map[string]map[string]string
	faultedDeref map[string]bool
	nestedFailed map[string]bool
	faultTask    string // when set, only this request's failed Dereferences count for the models
}

func callerFn() string {
	pcs := make([]uintptr, 24)
	n := runtime.Callers(3, pcs)
	frames := runtime.CallersFrames(pcs[:n])
	for {
		f, more := frames.Next()
		if i := strings.Index(f.Function, "go-fed/activity/pub."); i >= 0 {
			name := f.Function[i+len("go-fed/activity/pub."):]
			name = strings.NewReplacer("(*", "", ")", "", "(", "").Replace(name)
			// closures: keep the enclosing function only
			if j := strings.Index(name, ".func"); j >= 0 {
				name = name[:j]
			}
			return name
		}
		if !more {
			break
		}
	}
	return "?"
}

func newSim(t *testing.T, spec *RunSpec) *Sim {
	s := &Sim{T: t, Spec: spec, byID: map[string]*Task{}, byGID: map[int64]*Task{}, locks: map[string]*Task{},
		mutexes: map[*sync.Mutex]*Task{}, muNames: map[*sync.Mutex]string{}, faultsAt: map[string]*FaultSpec{},
		Fired: map[string]int{}, Probes: map[string]int{}, Uncontrolled: map[string]int{}}
	s.maxSteps = spec.MaxSteps
	if s.maxSteps == 0 {
		s.maxSteps = 20000
	}
	for i := range spec.Faults {
		f := &spec.Faults[i]
		s.faultsAt[f.Site] = f
		if f.Kind == "crash" {
			s.crashAt = f
			fmt.Sscanf(f.Site, "step|%d", &s.crashStep)
		}
	}
	s.chooser = newChooser(spec.Sched)
	return s
}

func (s *Sim) installHooks() {
	seed := s.Spec.MapSeed
	counts := map[string]int{}
	perm := func(site string, n int) []int {
		p := make([]int, n)
		for i := range p {
			p[i] = i
		}
		if seed == 0 {
			return p
		}
		counts[site]++
		h := sha256.Sum256([]byte(fmt.Sprintf("%d|%s|%d", seed, site, counts[site])))
		r := NewRng(binary.LittleEndian.Uint64(h[:8]))
		s.Fired["map_order"]++
		return r.Perm(n)
	}
	pub.SimMapPerm = perm
	streams.SimMapPerm = perm
	unc := func(site string) { s.Uncontrolled[site]++ }
	pub.SimUncontrolled = unc
	streams.SimUncontrolled = unc
	pub.SimGo = func(fn func(), site string) {
		parent := s.curTask()
		if parent == nil {
			panic("sim: go statement outside a task")
		}
		child := s.spawnChild(parent, "lib", fn)
		child.Srv = parent.Srv
		child.EntryKind = "go:" + site
		child.authOK, child.blockOK = true, true
	}
	pub.SimBeforeLock = func(m *sync.Mutex, site string) {
		if s.inAbort() {
			return
		}
		if _, ok := s.muNames[m]; !ok {
			s.muNames[m] = fmt.Sprintf("mu%d", len(s.muNames))
		}
		s.yield(Op{Kind: opMutex, Method: "mu.Lock", Mu: m, ID: s.muNames[m]})
		s.logEv(Event{Kind: "mu.Lock", ID: s.muNames[m], Res: site})
	}
	pub.SimLockStuck = func(m *sync.Mutex, site string) {
		if s.inAbort() {
			return
		}
		// the lock table says free and the real mutex is held: nobody will ever release it (e.g. a mutex copied while locked).
		// The caller would hang in m.Lock(), invisibly to the bubble; block it durably instead -> "blocked-outside-seam" deadlock.
		s.logEv(Event{Task: taskID(s.curTask()), Kind: "mu.STUCK", ID: s.muNames[m], Res: site})
		select {}
	}
	pub.SimBeforeSend = func(site string) {
		if s.inAbort() || s.curTask() == nil {
			return
		}
		s.yield(Op{Kind: opPause, Method: "chan.send", ID: site})
	}
	pub.SimAfterUnlock = func(m *sync.Mutex, site string) {
		if s.inAbort() {
			return
		}
		delete(s.mutexes, m)
		s.logEv(Event{Task: taskID(s.curTask()), Kind: "mu.Unlock", ID: s.muNames[m], Res: site})
	}
}

func taskID(t *Task) string {
	if t == nil {
		return "?"
	}
	return t.ID
}

func snapshotAll(w *World) map[string]map[string]string {
	out := map[string]map[string]string{}
	for h, srv := range w.Servers {
		out[h] = srv.DB.snapshot()
	}
	return out
}

// Execute runs one spec to completion.
var execCount int

func Execute(t *testing.T, spec *RunSpec) *Result {
	// garbage is collected between runs, at a point that depends on the run count only
	if execCount++; execCount%64 == 0 {
		runtime.GC()
	}
	s := newSim(t, spec)
	res := &Result{Spec: spec, Sim: s}
	bp := s.Run(func() {
		s.installHooks()
		s.World = buildWorld(s, &spec.World)
		res.Before = snapshotAll(s.World)
		if spec.World.Tx != nil {
			s.World.Tx = buildTx(s, spec.World.Tx, s.World.Servers[s.World.Order[0]].Clock)
		}
		for i := range spec.Requests {
			rs := &spec.Requests[i]
			task := s.newTask(rs.ID, nil, nil)
			task.After = rs.After
			task.Origin = "client"
			task.Req = rs
			task.Srv = rs.Server
			task.EntryKind = rs.Kind
			if rs.Kind == "handler" || rs.Kind == "send" {
				task.authOK, task.blockOK = true, true
			}
			tk := task
			if strings.HasPrefix(rs.Kind, "tx") {
				task.fn = func() { s.World.Tx.runTx(tk, rs) }
			} else {
				task.fn = func() { s.World.runRequest(tk, rs) }
			}
			s.launch(task)
		}
	})
	if bp != nil {
		msg := fmt.Sprint(bp)
		if strings.Contains(msg, "deadlock: main bubble goroutine has exited") {
			// goroutines blocked outside any seam were left behind
			if s.Verdict == "" {
				s.Verdict = "deadlock"
			}
			s.stuck = true
		} else {
			res.Harness = "bubble panic: " + msg
		}
	}
	if s.World != nil {
		res.After = snapshotAll(s.World)
	}
	res.Viol = s.Viol
	res.Verdict = s.Verdict
	res.Steps = s.Steps
	res.Sched = s.Sched
	res.Tasks = s.tasks
	for _, tk := range s.tasks {
		if tk.Panic != nil {
			if str, ok := tk.Panic.(string); ok && strings.HasPrefix(str, "sim: ") {
				res.Harness = "task " + tk.ID + ": " + str
				continue
			}
			site := panicSite(tk.PanicStk)
			s.violate("C11", "panic", site, fmt.Sprintf("task %s (%s) panicked: %v", tk.ID, tk.EntryKind, tk.Panic))
		}
	}
	if s.Verdict == "budget" {
		s.violate("C11", "no-return", "step-budget", fmt.Sprintf("no return within %d seam steps", s.maxSteps))
	}
	if s.Verdict == "deadlock" {
		s.violate("C08", "deadlock", deadlockSite(s), lastDeadlock(s))
		s.violate("C11", "no-return", deadlockSite(s), lastDeadlock(s))
	}
	res.Viol = s.Viol
	res.LogHash = s.LogHash()
	return res
}

func lastDeadlock(s *Sim) string {
	for i := len(s.Log) - 1; i >= 0; i-- {
		if s.Log[i].Kind == "DEADLOCK" {
			return s.Log[i].Res
		}
	}
	return "goroutines blocked outside any seam"
}

func deadlockSite(s *Sim) string {
	if s.deadlockAt == "" {
		return "blocked-outside-seam"
	}
	return s.deadlockAt
}

// panicSite: first go-fed/activity frame of the stack.
func panicSite(stk string) string {
	for _, line := range strings.Split(stk, "\n") {
		if i := strings.Index(line, "github.com/go-fed/activity/"); i >= 0 && !strings.HasPrefix(line, "\t") {
			fn := line[i+len("github.com/go-fed/activity/"):]
			if j := strings.LastIndex(fn, "("); j > 0 {
				fn = fn[:j]
			}
			return fn
		}
	}
	return "?"
}

// ---- always-on monitors -------------------------------------------------------

func sideEffectCallback(method string) bool {
	return strings.HasPrefix(method, "cb.") || method == "FilterForwarding"
}

// monSeam is called at every seam call after the scheduling point (C07).
func (s *Sim) monSeam(t *Task, layer, method, host string) {
	if t == nil || t.Req == nil {
		return
	}
	relevant := layer == "db" || layer == "tp" || (layer == "app" && sideEffectCallback(method))
	if !relevant {
		return
	}
	t.sideEff++
	if !t.authOK {
		s.violate("C07", "before-authentication", layer+"."+method+"@"+t.EntryKind,
			fmt.Sprintf("task %s (%s) made %s.%s before its authentication succeeded", t.ID, t.EntryKind, layer, method))
	} else if !t.blockOK {
		s.violate("C07", "before-block-check", layer+"."+method+"@"+t.EntryKind,
			fmt.Sprintf("task %s (%s) made %s.%s before the block check passed", t.ID, t.EntryKind, layer, method))
	}
}

func hasHidden(m J) []string {
	var out []string
	for _, k := range []string{"bto", "bcc"} {
		if _, ok := m[k]; ok {
			out = append(out, k)
		}
	}
	return out
}

// asAliases: the prefixes a document's @context binds to the ActivityStreams namespace, in either direction
// ({namespace: alias} as the decoder reads it, {alias: namespace} as the encoder writes it).
func asAliases(ctx interface{}) []string {
	var out []string
	for _, c := range aslist(ctx) {
		if cm, ok := c.(map[string]interface{}); ok {
			for k, v := range cm {
				vs, _ := v.(string)
				if k == asCtx && vs != "" {
					out = append(out, vs)
				} else if vs == asCtx {
					out = append(out, k)
				}
			}
		}
	}
	sort.Strings(out)
	return out
}

// prefixedHidden: bto/bcc spelled with a vocabulary prefix (as:bto). Under that @context it is the very same member.
func prefixedHidden(m J, aliases []string, objKey bool) []string {
	var out []string
	for _, a := range aliases {
		for _, k := range []string{"bto", "bcc"} {
			if _, ok := m[a+":"+k]; ok {
				out = append(out, a+":"+k)
			}
		}
	}
	if objKey {
		keys := []string{"object"}
		for _, a := range aliases {
			keys = append(keys, a+":object")
		}
		for _, ok := range keys {
			for _, o := range aslist(m[ok]) {
				if om, isM := o.(map[string]interface{}); isM {
					out = append(out, prefixedHidden(om, aliases, true)...)
				}
			}
		}
	}
	return out
}

// monWire checks every payload handed to a transport (C03).
func (s *Sim) monWire(t *Task, tp *SimTransport, wm *WireMsg) {
	isOutbox := false
	for _, a := range tp.srv.Actors {
		if a.Outbox == tp.box {
			isOutbox = true
		}
	}
	if !isOutbox {
		return
	}
	m, err := parseJ([]byte(wm.Payload))
	if err != nil {
		s.violate("C03", "payload-not-json", "wire", "payload is not a JSON object: "+trunc(wm.Payload, 80))
		return
	}
	if h := hasHidden(m); len(h) > 0 {
		s.violate("C03", "hidden-on-activity", "wire:"+strings.Join(h, "+"), fmt.Sprintf("payload of %s carries %v: %s", t.ID, h, trunc(wm.Payload, 200)))
	}
	if al := asAliases(m["@context"]); len(al) > 0 {
		if h := prefixedHidden(m, al, true); len(h) > 0 {
			s.violate("C03", "prefixed-hidden-member", "wire", fmt.Sprintf("payload of %s carries %v, which under its @context are bto/bcc: %s", t.ID, h, trunc(wm.Payload, 300)))
		}
	}
	for _, o := range aslist(m["object"]) {
		if om, ok := o.(map[string]interface{}); ok {
			if h := hasHidden(om); len(h) > 0 {
				s.violate("C03", "hidden-on-object", "wire:"+strings.Join(h, "+"), fmt.Sprintf("object in payload of %s carries %v: %s", t.ID, h, trunc(wm.Payload, 200)))
			}
		}
	}
}

// hiddenAtObjectDepth reports bto/bcc at any depth of 'object' nesting.
func hiddenAtObjectDepth(m J, depth int) (int, []string) {
	if h := hasHidden(m); len(h) > 0 {
		return depth, h
	}
	for _, o := range aslist(m["object"]) {
		if om, ok := o.(map[string]interface{}); ok {
			if d, h := hiddenAtObjectDepth(om, depth+1); h != nil {
				return d, h
			}
		}
	}
	return 0, nil
}

// monEnd runs when an entry call has returned (C09, C10, C03 for GET bodies).
func (s *Sim) monEnd(t *Task) {
	if len(t.held) > 0 {
		ids := append([]string(nil), t.held...)
		s.violate("C09", "lock-leak", t.heldBy[ids[0]],
			fmt.Sprintf("task %s (%s) returned (err=%v) still holding %v", t.ID, t.EntryKind, t.Err, ids))
		// the leaked locks stay held, as they would in a real application: later
		// requests needing them block (C08 completion)
		s.probe("lock-leaked")
	}
	if t.EntryKind == "send" {
		return
	}
	rec := t.Rec
	switch {
	case !t.Handled:
		if rec.Wrote() || rec.AppWrites > 0 {
			s.violate("C10", "unhandled-but-written", t.EntryKind, fmt.Sprintf("task %s: handled=false yet status %d / %d bytes written", t.ID, rec.Status, rec.Body.Len()))
		}
		if t.Err != nil {
			// allowed by the handler contract? the statement lists three end states; an error with handled=false is none of them
			s.violate("C10", "unhandled-with-error", t.EntryKind, fmt.Sprintf("task %s: handled=false with error %v", t.ID, t.Err))
		}
	case t.Err != nil:
		if rec.Wrote() {
			s.violate("C10", "error-after-write", t.EntryKind, fmt.Sprintf("task %s: error %q returned after the library wrote status %d", t.ID, trunc(t.Err.Error(), 80), rec.Status))
		}
	default:
		n := rec.WriteHdrN
		if n == 0 && rec.AppWrites > 0 {
			n = 1
		}
		if n != 1 || (rec.WriteHdrN > 0 && rec.AppWrites > 0) {
			s.violate("C10", "status-count", t.EntryKind, fmt.Sprintf("task %s: handled, nil error, but %d status writes by the library and %d by the application", t.ID, rec.WriteHdrN, rec.AppWrites))
		}
	}
	// C03: bodies served by the ActivityStreams handler
	if t.EntryKind == "handler" && rec.Body.Len() > 0 {
		if m, err := parseJ(rec.Body.Bytes()); err == nil {
			if d, h := hiddenAtObjectDepth(m, 0); h != nil {
				s.violate("C03", "hidden-served", fmt.Sprintf("handler:depth%d", min(d, 1)), fmt.Sprintf("GET %s served %v at object depth %d", t.Req.Path, h, d))
			}
			if al := asAliases(m["@context"]); len(al) > 0 {
				if h := prefixedHidden(m, al, true); len(h) > 0 {
					s.violate("C03", "prefixed-hidden-member", "handler", fmt.Sprintf("GET %s served %v, which under its @context are bto/bcc", t.Req.Path, h))
				}
			}
		}
	}
}

func lockClass(s *Sim, t *Task, key string) string {
	id := key[strings.Index(key, "|")+1:]
	srv := s.World.Servers[t.Srv]
	if srv != nil {
		for _, a := range srv.Actors {
			switch id {
			case a.ID:
				return "actor"
			case a.Inbox:
				return "inbox"
			case a.Outbox:
				return "outbox"
			case a.Followers, a.Following, a.Liked:
				return "actor-collection"
			}
		}
	}
	return "value"
}

// corruption hooks (C11); identity unless a fault addresses the site.
func (s *Sim) corruptStored(d *SimDB, method, id string, b json.RawMessage) json.RawMessage {
	t := s.cur
	if t == nil {
		return b
	}
	site := fmt.Sprintf("%s|%s|%d|value", t.ID, method, t.calls[method])
	if f := s.faultsAt[site]; f != nil {
		s.Fired[f.Kind]++
		return mutateDoc(b, f.Arg)
	}
	return b
}

func (s *Sim) corruptDoc(iri string, b []byte) []byte {
	t := s.cur
	if t == nil {
		return b
	}
	site := fmt.Sprintf("%s|tp.Dereference|%d|value", t.ID, t.calls["tp.Dereference"])
	if f := s.faultsAt[site]; f != nil {
		s.Fired[f.Kind]++
		return mutateDoc(b, f.Arg)
	}
	return b
}
