// astcmp compares Go files pairwise by syntax tree: both sides are parsed with
// go/parser WITHOUT comments, every position is erased, the trees are printed
// with go/printer and the printed texts are compared. Comments, blank lines, indentation and line breaks do not
// matter; any token, identifier, literal or declaration order difference does.
//
//	astcmp <dirA> <dirB> <listfile>
//
// listfile has one relative path per line (files present on both sides). Output:
// one JSON object on stdout:
//
//	{"compared":N,"byte_identical":N,"ast_identical":N,"different":[{"file":..,"excerpt":..}],"errors":[..]}
//
// Exit 0 always unless the arguments are unusable (exit 2); the caller decides.
package main

import (
	"bufio"
	"bytes"
	"encoding/json"
	"fmt"
	"go/ast"
	"go/parser"
	"go/printer"
	"go/token"
	"os"
	"path/filepath"
	"reflect"
	"runtime"
	"strings"
	"sync"
)

type diff struct {
	File    string `json:"file"`
	Excerpt string `json:"excerpt"`
}

type result struct {
	Compared      int      `json:"compared"`
	ByteIdentical int      `json:"byte_identical"`
	ASTIdentical  int      `json:"ast_identical"`
	Different     []diff   `json:"different"`
	Errors        []string `json:"errors"`
}

// normal parses src without comments, erases every position, and prints the
// tree with go/printer: with no positions the printer cannot reproduce the
// original layout, so the text is a function of the syntax tree alone.
func normal(name string, src []byte) (string, error) {
	fset := token.NewFileSet()
	f, err := parser.ParseFile(fset, name, src, parser.SkipObjectResolution) // no ParseComments: comments are dropped
	if err != nil {
		return "", err
	}
	f.Comments = nil
	posType := reflect.TypeOf(token.NoPos)
	cgType := reflect.TypeOf((*ast.CommentGroup)(nil))
	ast.Inspect(f, func(n ast.Node) bool {
		if n == nil {
			return true
		}
		v := reflect.ValueOf(n)
		if v.Kind() != reflect.Ptr || v.Elem().Kind() != reflect.Struct {
			return true
		}
		v = v.Elem()
		for i := 0; i < v.NumField(); i++ {
			fv := v.Field(i)
			switch fv.Type() {
			case posType:
				name := v.Type().Field(i).Name
				// the only positions that carry syntax: f(a...) and type A = B
				if (name == "Ellipsis" || name == "Assign") && token.Pos(fv.Int()).IsValid() {
					fv.SetInt(1)
				} else {
					fv.SetInt(0)
				}
			case cgType:
				fv.Set(reflect.Zero(cgType)) // Doc / Comment fields
			}
		}
		return true
	})
	f.FileStart, f.FileEnd = 0, 0
	var a bytes.Buffer
	if err := (&printer.Config{Mode: printer.UseSpaces | printer.TabIndent, Tabwidth: 8}).Fprint(&a, token.NewFileSet(), f); err != nil {
		return "", err
	}
	return a.String(), nil
}

func excerpt(a, b string) string {
	la, lb := strings.Split(a, "\n"), strings.Split(b, "\n")
	i := 0
	for i < len(la) && i < len(lb) && la[i] == lb[i] {
		i++
	}
	from := i - 3
	if from < 0 {
		from = 0
	}
	var s strings.Builder
	fmt.Fprintf(&s, "first difference at line %d of the position-free printed syntax tree\n", i+1)
	for k := from; k < i+4; k++ {
		if k < len(la) {
			fmt.Fprintf(&s, "A %s\n", la[k])
		}
	}
	for k := from; k < i+4; k++ {
		if k < len(lb) {
			fmt.Fprintf(&s, "B %s\n", lb[k])
		}
	}
	return s.String()
}

func main() {
	if len(os.Args) != 4 {
		fmt.Fprintln(os.Stderr, "usage: astcmp dirA dirB listfile")
		os.Exit(2)
	}
	da, db := os.Args[1], os.Args[2]
	lf, err := os.Open(os.Args[3])
	if err != nil {
		fmt.Fprintln(os.Stderr, err)
		os.Exit(2)
	}
	var files []string
	sc := bufio.NewScanner(lf)
	for sc.Scan() {
		if t := strings.TrimSpace(sc.Text()); t != "" {
			files = append(files, t)
		}
	}
	res := result{Different: []diff{}, Errors: []string{}}
	var mu sync.Mutex
	var wg sync.WaitGroup
	sem := make(chan struct{}, runtime.NumCPU())
	for _, rel := range files {
		wg.Add(1)
		sem <- struct{}{}
		go func(rel string) {
			defer wg.Done()
			defer func() { <-sem }()
			a, ea := os.ReadFile(filepath.Join(da, rel))
			b, eb := os.ReadFile(filepath.Join(db, rel))
			mu.Lock()
			res.Compared++
			mu.Unlock()
			if ea != nil || eb != nil {
				mu.Lock()
				res.Errors = append(res.Errors, fmt.Sprintf("%s: %v %v", rel, ea, eb))
				mu.Unlock()
				return
			}
			if bytes.Equal(a, b) {
				mu.Lock()
				res.ByteIdentical++
				res.ASTIdentical++
				mu.Unlock()
				return
			}
			if !strings.HasSuffix(rel, ".go") {
				mu.Lock()
				res.Different = append(res.Different, diff{rel, "not a Go file and not byte-identical"})
				mu.Unlock()
				return
			}
			na, ea := normal(rel, a)
			nb, eb := normal(rel, b)
			mu.Lock()
			defer mu.Unlock()
			if ea != nil || eb != nil {
				// a side that does not parse cannot have "the same syntax tree"
				res.Different = append(res.Different, diff{rel, fmt.Sprintf("parse error: A=%v B=%v", ea, eb)})
				return
			}
			if na == nb {
				res.ASTIdentical++
				return
			}
			res.Different = append(res.Different, diff{rel, excerpt(na, nb)})
		}(rel)
	}
	wg.Wait()
	out, _ := json.Marshal(res)
	fmt.Println(string(out))
}
