module verifastcmp

go 1.26.8
