// instr rewrites Go source files of go-fed/activity so that sources of
// nondeterminism the simulator must own are put behind hook variables, and
// emits a `go build -overlay` file. Nothing is written under /repo.
//
//	T1  for k, v := range <map>        -> iteration over simEntries(m, site): canonical key order,
//	                                      permuted by the hook SimMapPerm (nil: sorted order)
//	T2  x.Lock()/x.Unlock() on sync.Mutex -> simLock(x)/simUnlock(x): hook, then the real call
//	T3  go f(a, b)                      -> args evaluated now, simGo(func(){ f(a', b') })
//	T4  ch <- v                         -> simSend(ch, v, site): a scheduling point, then the real send
//	T5  (only with -t5, in the -t23 packages) a scheduling point right AFTER every channel receive:
//	    for v := range ch { B }         -> for v := range ch { simAfterRecv(site); B }; simAfterRecv(site)
//	    v := <-ch | v, ok = <-ch | <-ch | var v = <-ch   -> the statement, then simAfterRecv(site)
//	    select { case v := <-ch: B }    -> simAfterRecv(site) is the first statement of B
//	    Receives anywhere else (conditions, return, arguments of go/defer, two receives in one statement), sends
//	    in select cases and selects with two or more communication cases (the runtime picks among ready cases at
//	    random) are reported as uncontrolled. With -t5 report.json also carries a census of the go statements and
//	    channel operations seen, and sends of constants / nil get a scheduling point too.
//
// Usage: instr -moddir <harness module dir> -out <dir> [-t1 pkg,...] [-t23 pkg,...] [-t5]
// Fails closed (exit 2) on anything it cannot handle. Without -t5 the output is exactly what it was before T5 existed.
package main

import (
	"bytes"
	"encoding/json"
	"flag"
	"fmt"
	"go/ast"
	"go/format"
	"go/importer"
	"go/parser"
	"go/printer"
	"go/token"
	"go/types"
	"io"
	"os"
	"os/exec"
	"path/filepath"
	"sort"
	"strings"
)

type listPkg struct {
	ImportPath string
	Dir        string
	Export     string
	GoFiles    []string
	Standard   bool
}

type siteReport struct {
	Kind string `json:"kind"`
	Site string `json:"site"`
	Note string `json:"note,omitempty"`
}

var (
	report       []siteReport
	uncontrolled []siteReport
	t5on         bool
	census       = map[string]int{"go_statements": 0, "channel_sends": 0, "channel_receives": 0, "channel_ranges": 0, "selects": 0, "channel_closes": 0}
)

func die(format string, a ...interface{}) {
	fmt.Fprintf(os.Stderr, "instr: "+format+"\n", a...)
	os.Exit(2)
}

func main() {
	moddir := flag.String("moddir", "", "directory of the harness module (has replace => /repo)")
	out := flag.String("out", "", "output directory (outside any package directory)")
	t1 := flag.String("t1", "", "comma separated import paths that get T1")
	t23 := flag.String("t23", "", "comma separated import paths that get T2+T3 (and T1)")
	only := flag.String("onlyfiles", "", "optional: for packages in -t1only, comma list pkg:file restricting T1 to these files")
	gocmd := flag.String("go", "go1.26.8", "go command")
	t5 := flag.Bool("t5", false, "T5 in the -t23 packages: scheduling points after channel receives, census of go statements / channel operations, fail-closed reports for channel shapes that are not rewritten")
	flag.Parse()
	t5on = *t5
	if *moddir == "" || *out == "" {
		die("need -moddir and -out")
	}
	if err := os.MkdirAll(filepath.Join(*out, "files"), 0o755); err != nil {
		die("%v", err)
	}
	want := map[string]int{} // 1 = T1, 3 = T1+T2+T3
	for _, p := range strings.Split(*t1, ",") {
		if p != "" {
			want[p] = 1
		}
	}
	for _, p := range strings.Split(*t23, ",") {
		if p != "" {
			want[p] = 3
		}
	}
	restrict := map[string]map[string]bool{}
	for _, pf := range strings.Split(*only, ",") {
		if pf == "" {
			continue
		}
		i := strings.LastIndex(pf, ":")
		if i < 0 {
			die("bad -onlyfiles entry %q", pf)
		}
		if restrict[pf[:i]] == nil {
			restrict[pf[:i]] = map[string]bool{}
		}
		restrict[pf[:i]][pf[i+1:]] = true
	}
	var pats []string
	for p := range want {
		pats = append(pats, p)
	}
	sort.Strings(pats)

	// 1. go list -export -deps
	args := append([]string{"list", "-export", "-deps", "-json=ImportPath,Dir,Export,GoFiles,Standard"}, pats...)
	cmd := exec.Command(*gocmd, args...)
	cmd.Dir = *moddir
	cmd.Stderr = os.Stderr
	outb, err := cmd.Output()
	if err != nil {
		die("go list failed: %v", err)
	}
	pkgs := map[string]*listPkg{}
	dec := json.NewDecoder(bytes.NewReader(outb))
	for {
		var p listPkg
		if err := dec.Decode(&p); err == io.EOF {
			break
		} else if err != nil {
			die("decode go list: %v", err)
		}
		pp := p
		pkgs[p.ImportPath] = &pp
	}
	fset := token.NewFileSet()
	lookup := func(path string) (io.ReadCloser, error) {
		p := pkgs[path]
		if p == nil || p.Export == "" {
			return nil, fmt.Errorf("no export data for %q", path)
		}
		return os.Open(p.Export)
	}
	imp := importer.ForCompiler(fset, "gc", lookup)

	overlay := map[string]string{}
	n := 0
	for _, ip := range pats {
		p := pkgs[ip]
		if p == nil {
			die("package %s not listed", ip)
		}
		var files []*ast.File
		var names []string
		for _, f := range p.GoFiles {
			full := filepath.Join(p.Dir, f)
			af, err := parser.ParseFile(fset, full, nil, parser.ParseComments)
			if err != nil {
				die("parse %s: %v", full, err)
			}
			files = append(files, af)
			names = append(names, full)
		}
		info := &types.Info{
			Types:      map[ast.Expr]types.TypeAndValue{},
			Selections: map[*ast.SelectorExpr]*types.Selection{},
			Uses:       map[*ast.Ident]types.Object{},
			Defs:       map[*ast.Ident]types.Object{},
		}
		conf := types.Config{Importer: imp, Error: func(err error) {}}
		var firstErr error
		conf.Error = func(err error) {
			if firstErr == nil {
				firstErr = err
			}
		}
		tpkg, _ := conf.Check(ip, fset, files, info)
		if firstErr != nil {
			die("type-check %s: %v", ip, firstErr)
		}
		pkgChanged := false
		for i, af := range files {
			if r := restrict[ip]; r != nil && !r[filepath.Base(names[i])] {
				continue
			}
			rw := &rewriter{fset: fset, info: info, pkg: tpkg, level: want[ip], file: names[i], repoRel: relName(ip, names[i])}
			changed := rw.rewriteFile(af)
			if !changed {
				continue
			}
			pkgChanged = true
			var buf bytes.Buffer
			buf.WriteString("//go:build go1.21\n\n")
			if err := (&printer.Config{Mode: printer.UseSpaces | printer.TabIndent, Tabwidth: 8}).Fprint(&buf, fset, af); err != nil {
				die("print %s: %v", names[i], err)
			}
			src, err := format.Source(buf.Bytes())
			if err != nil {
				die("format %s: %v", names[i], err)
			}
			n++
			dst := filepath.Join(*out, "files", fmt.Sprintf("%03d_%s", n, filepath.Base(names[i])))
			if err := os.WriteFile(dst, src, 0o644); err != nil {
				die("%v", err)
			}
			overlay[names[i]] = dst
		}
		if pkgChanged {
			n++
			dst := filepath.Join(*out, "files", fmt.Sprintf("%03d_zz_verif_simrt.go", n))
			src := strings.Replace(simrtSrc, "package PKG", "package "+tpkg.Name(), 1)
			if t5on {
				src += simrtT5Src
			}
			if err := os.WriteFile(dst, []byte(src), 0o644); err != nil {
				die("%v", err)
			}
			overlay[filepath.Join(p.Dir, "zz_verif_simrt.go")] = dst
		}
	}
	ob, _ := json.MarshalIndent(map[string]interface{}{"Replace": overlay}, "", " ")
	if err := os.WriteFile(filepath.Join(*out, "overlay.json"), ob, 0o644); err != nil {
		die("%v", err)
	}
	rmap := map[string]interface{}{"instrumented": report, "uncontrolled": uncontrolled}
	if t5on {
		rmap["census"] = census
	}
	rb, _ := json.MarshalIndent(rmap, "", " ")
	if err := os.WriteFile(filepath.Join(*out, "report.json"), rb, 0o644); err != nil {
		die("%v", err)
	}
	cnt := map[string]int{}
	for _, r := range report {
		cnt[r.Kind]++
	}
	fmt.Printf("instr: %d files rewritten; T1=%d T2=%d T3=%d T4=%d uncontrolled=%d\n", len(overlay), cnt["T1"], cnt["T2"], cnt["T3"], cnt["T4"], len(uncontrolled))
	if t5on {
		fmt.Printf("instr: T5=%d; census: %d go statements, %d channel sends, %d receives, %d ranges over channels, %d selects, %d closes\n", cnt["T5"],
			census["go_statements"], census["channel_sends"], census["channel_receives"], census["channel_ranges"], census["selects"], census["channel_closes"])
	}
}

func relName(ip, full string) string {
	return ip[strings.Index(ip, "/activity/")+len("/activity/"):] + "/" + filepath.Base(full)
}

type rewriter struct {
	fset    *token.FileSet
	info    *types.Info
	pkg     *types.Package
	level   int
	file    string
	repoRel string
	changed bool
	funcs   []string
	siteN   map[string]int
	// T5: receive expressions seen by exprs() since the innermost enclosing statement list began handling a statement
	pendingRecv int
}

func (r *rewriter) t5() bool { return t5on && r.level >= 3 }

func (r *rewriter) giveUpSched(kind string, pos token.Pos, why string) {
	uncontrolled = append(uncontrolled, siteReport{Kind: kind, Site: r.site(kind+"!", pos), Note: why})
}

func (r *rewriter) afterRecvCall(pos token.Pos, note string) ast.Stmt {
	site := r.site("T5", pos)
	r.changed = true
	report = append(report, siteReport{Kind: "T5", Site: site, Note: note})
	return &ast.ExprStmt{X: &ast.CallExpr{Fun: ast.NewIdent("simAfterRecv"),
		Args: []ast.Expr{&ast.BasicLit{Kind: token.STRING, Value: fmt.Sprintf("%q", site)}}}}
}

// stmtList rewrites the statements of a list; with T5 a statement that holds one channel receive is followed by
// the scheduling point, and a range over a channel is followed by one (the receive that saw the channel closed).
func (r *rewriter) stmtList(list []ast.Stmt) []ast.Stmt {
	if !r.t5() {
		for i, s := range list {
			list[i] = r.stmt(s)
		}
		return list
	}
	var out []ast.Stmt
	for _, s := range list {
		outer := r.pendingRecv
		r.pendingRecv = 0
		isChanRange := false
		if rs, ok := s.(*ast.RangeStmt); ok {
			isChanRange = r.isChan(rs.X)
		}
		ns := r.stmt(s)
		got := r.pendingRecv
		r.pendingRecv = outer
		out = append(out, ns)
		if isChanRange {
			out = append(out, r.afterRecvCall(s.End(), "after the range over a channel ended"))
		}
		if got == 0 {
			continue
		}
		switch s.(type) {
		case *ast.AssignStmt, *ast.ExprStmt, *ast.DeclStmt:
			if got == 1 {
				out = append(out, r.afterRecvCall(s.Pos(), "after a statement with a receive"))
				continue
			}
			r.giveUpSched("T5", s.Pos(), fmt.Sprintf("%d receives in one statement: no scheduling point between them", got))
		default:
			r.giveUpSched("T5", s.Pos(), fmt.Sprintf("receive inside a %T (condition, init, return value, argument of go/defer, operand of a send): not rewritten", s))
		}
	}
	return out
}

func (r *rewriter) isChan(e ast.Expr) bool {
	tv, ok := r.info.Types[e]
	if !ok || tv.Type == nil {
		return false
	}
	_, isCh := tv.Type.Underlying().(*types.Chan)
	return isCh
}

func (r *rewriter) site(kind string, pos token.Pos) string {
	fn := "init"
	if len(r.funcs) > 0 {
		fn = r.funcs[len(r.funcs)-1]
	}
	if r.siteN == nil {
		r.siteN = map[string]int{}
	}
	key := kind + ":" + fn
	r.siteN[key]++
	// site names are stable against line shifts: file, function, ordinal within function
	return fmt.Sprintf("%s:%s#%d", r.repoRel, fn, r.siteN[key])
}

func (r *rewriter) rewriteFile(f *ast.File) bool {
	for _, d := range f.Decls {
		fd, ok := d.(*ast.FuncDecl)
		if !ok || fd.Body == nil {
			continue
		}
		name := fd.Name.Name
		if fd.Recv != nil && len(fd.Recv.List) > 0 {
			name = exprString(r.fset, fd.Recv.List[0].Type) + "." + name
			name = strings.TrimPrefix(name, "*")
		}
		r.funcs = append(r.funcs, name)
		r.block(fd.Body)
		r.funcs = r.funcs[:len(r.funcs)-1]
	}
	return r.changed
}

// block rewrites statements of a block in place.
func (r *rewriter) block(b *ast.BlockStmt) {
	if b == nil {
		return
	}
	b.List = r.stmtList(b.List)
}

func (r *rewriter) stmt(s ast.Stmt) ast.Stmt {
	switch s := s.(type) {
	case *ast.BlockStmt:
		r.block(s)
	case *ast.IfStmt:
		if s.Init != nil {
			s.Init = r.stmt(s.Init)
		}
		r.exprs(s.Cond)
		r.block(s.Body)
		if s.Else != nil {
			s.Else = r.stmt(s.Else)
		}
	case *ast.ForStmt:
		if s.Init != nil {
			s.Init = r.stmt(s.Init)
		}
		if s.Cond != nil {
			r.exprs(s.Cond)
		}
		if s.Post != nil {
			s.Post = r.stmt(s.Post)
		}
		r.block(s.Body)
	case *ast.RangeStmt:
		r.exprs(s.X)
		r.block(s.Body)
		if r.t5() && r.isChan(s.X) {
			census["channel_ranges"]++
			s.Body.List = append([]ast.Stmt{r.afterRecvCall(s.Pos(), "first statement of the body of a range over a channel")}, s.Body.List...)
			return s
		}
		return r.rangeStmt(s)
	case *ast.SwitchStmt:
		if s.Init != nil {
			s.Init = r.stmt(s.Init)
		}
		if s.Tag != nil {
			r.exprs(s.Tag)
		}
		r.block(s.Body)
	case *ast.TypeSwitchStmt:
		if s.Init != nil {
			s.Init = r.stmt(s.Init)
		}
		s.Assign = r.stmt(s.Assign)
		r.block(s.Body)
	case *ast.SelectStmt:
		if r.t5() {
			census["selects"]++
			comm := 0
			for _, c := range s.Body.List {
				if cc, ok := c.(*ast.CommClause); ok && cc.Comm != nil {
					comm++
				}
			}
			if comm >= 2 {
				r.giveUpSched("T5", s.Pos(), fmt.Sprintf("select with %d communication cases: the runtime chooses among ready cases at random", comm))
			}
			// the clauses are not statements of a list that could take a scheduling point: walk them directly
			for i, c := range s.Body.List {
				s.Body.List[i] = r.stmt(c)
			}
			break
		}
		r.block(s.Body)
	case *ast.CaseClause:
		for _, e := range s.List {
			r.exprs(e)
		}
		s.Body = r.stmtList(s.Body)
	case *ast.CommClause:
		// the communication of a select case is left as it is (only its operands are walked)
		outer := r.pendingRecv
		r.pendingRecv = 0
		switch c := s.Comm.(type) {
		case *ast.SendStmt:
			r.exprs(c.Chan)
			r.exprs(c.Value)
			if r.t5() {
				census["channel_sends"]++
				r.giveUpSched("T4", c.Pos(), "send in a select case: no scheduling point before it")
			}
		case nil:
		default:
			s.Comm = r.stmt(s.Comm)
		}
		got := r.pendingRecv
		r.pendingRecv = outer
		s.Body = r.stmtList(s.Body)
		if r.t5() {
			if _, isSend := s.Comm.(*ast.SendStmt); isSend && got > 0 {
				r.giveUpSched("T5", s.Pos(), "receive inside the operands of a select send case")
			} else if got == 1 {
				s.Body = append([]ast.Stmt{r.afterRecvCall(s.Pos(), "first statement of a select receive case")}, s.Body...)
			} else if got > 1 {
				r.giveUpSched("T5", s.Pos(), fmt.Sprintf("%d receives in one select case", got))
			}
		}
	case *ast.LabeledStmt:
		s.Stmt = r.stmt(s.Stmt)
	case *ast.GoStmt:
		r.exprs(s.Call)
		if r.t5() {
			census["go_statements"]++
		}
		if r.level >= 3 {
			return r.goStmt(s)
		}
	case *ast.DeferStmt:
		r.exprs(s.Call)
	case *ast.ExprStmt:
		r.exprs(s.X)
	case *ast.AssignStmt:
		for _, e := range s.Lhs {
			r.exprs(e)
		}
		for _, e := range s.Rhs {
			r.exprs(e)
		}
	case *ast.ReturnStmt:
		for _, e := range s.Results {
			r.exprs(e)
		}
	case *ast.SendStmt:
		r.exprs(s.Chan)
		r.exprs(s.Value)
		if r.t5() {
			census["channel_sends"]++
		}
		if r.level >= 3 {
			return r.sendStmt(s)
		}
	case *ast.IncDecStmt:
		r.exprs(s.X)
	case *ast.DeclStmt:
		if gd, ok := s.Decl.(*ast.GenDecl); ok {
			for _, sp := range gd.Specs {
				if vs, ok := sp.(*ast.ValueSpec); ok {
					for _, e := range vs.Values {
						r.exprs(e)
					}
				}
			}
		}
	}
	return s
}

// exprs walks an expression: rewrites mutex calls in place (T2) and descends
// into function literals.
func (r *rewriter) exprs(e ast.Expr) {
	if e == nil {
		return
	}
	ast.Inspect(e, func(n ast.Node) bool {
		switch n := n.(type) {
		case *ast.FuncLit:
			r.funcs = append(r.funcs, r.funcs[len(r.funcs)-1]+".func")
			r.block(n.Body)
			r.funcs = r.funcs[:len(r.funcs)-1]
			return false
		case *ast.CallExpr:
			if r.level >= 3 {
				r.mutexCall(n)
			}
			if r.t5() {
				if id, ok := n.Fun.(*ast.Ident); ok && id.Name == "close" && len(n.Args) == 1 && r.isChan(n.Args[0]) {
					if _, builtin := r.info.Uses[id].(*types.Builtin); builtin {
						census["channel_closes"]++
					}
				}
			}
		case *ast.UnaryExpr:
			if n.Op == token.ARROW && r.t5() {
				census["channel_receives"]++
				r.pendingRecv++
			}
		}
		return true
	})
}

func (r *rewriter) mutexCall(c *ast.CallExpr) {
	sel, ok := c.Fun.(*ast.SelectorExpr)
	if !ok {
		return
	}
	selection := r.info.Selections[sel]
	if selection == nil || selection.Kind() != types.MethodVal {
		return
	}
	fn, ok := selection.Obj().(*types.Func)
	if !ok {
		return
	}
	full := fn.FullName()
	var helper string
	switch full {
	case "(*sync.Mutex).Lock":
		helper = "simLock"
	case "(*sync.Mutex).Unlock":
		helper = "simUnlock"
	case "(*sync.RWMutex).Lock", "(*sync.RWMutex).Unlock", "(*sync.RWMutex).RLock", "(*sync.RWMutex).RUnlock", "(*sync.Mutex).TryLock":
		die("%s: %s is not supported by the T2 rewrite", r.fset.Position(c.Pos()), full)
	default:
		return
	}
	var recv ast.Expr = sel.X
	rt := r.info.Types[sel.X].Type
	// a mutex reached through embedding (x.Lock() where x embeds sync.Mutex): spell the path out
	if idx := selection.Index(); len(idx) > 1 {
		for _, i := range idx[:len(idx)-1] {
			t := rt
			if p, ok := t.Underlying().(*types.Pointer); ok {
				t = p.Elem()
			}
			st, ok := t.Underlying().(*types.Struct)
			if !ok || i >= st.NumFields() {
				die("%s: cannot resolve the embedded mutex", r.fset.Position(c.Pos()))
			}
			f := st.Field(i)
			recv = &ast.SelectorExpr{X: recv, Sel: ast.NewIdent(f.Name())}
			rt = f.Type()
		}
	}
	var arg ast.Expr
	if _, isPtr := rt.Underlying().(*types.Pointer); isPtr {
		arg = recv
	} else {
		arg = &ast.UnaryExpr{Op: token.AND, X: recv}
	}
	site := r.site("T2", c.Pos())
	c.Fun = ast.NewIdent(helper)
	c.Args = []ast.Expr{arg, &ast.BasicLit{Kind: token.STRING, Value: fmt.Sprintf("%q", site)}}
	r.changed = true
	report = append(report, siteReport{Kind: "T2", Site: site, Note: full})
}

// sendStmt (T4): ch <- v  ->  simSend(ch, v, site): a scheduling point before the send, then the real send.
func (r *rewriter) sendStmt(s *ast.SendStmt) ast.Stmt {
	tv := r.info.Types[s.Value]
	if tv.Value != nil || tv.IsNil() {
		if r.t5() {
			// { simSendPoint(site); ch <- v }: the same scheduling point without naming the element type
			site := r.site("T4", s.Pos())
			r.changed = true
			report = append(report, siteReport{Kind: "T4", Site: site, Note: "constant or nil operand"})
			return &ast.BlockStmt{List: []ast.Stmt{&ast.ExprStmt{X: &ast.CallExpr{Fun: ast.NewIdent("simSendPoint"),
				Args: []ast.Expr{&ast.BasicLit{Kind: token.STRING, Value: fmt.Sprintf("%q", site)}}}}, s}}
		}
		return s // untyped constant / nil operand: leave the statement alone (reported as uncontrolled)
	}
	site := r.site("T4", s.Pos())
	r.changed = true
	report = append(report, siteReport{Kind: "T4", Site: site})
	return &ast.ExprStmt{X: &ast.CallExpr{Fun: ast.NewIdent("simSend"),
		Args: []ast.Expr{s.Chan, s.Value, &ast.BasicLit{Kind: token.STRING, Value: fmt.Sprintf("%q", site)}}}}
}

func (r *rewriter) goStmt(s *ast.GoStmt) ast.Stmt {
	site := r.site("T3", s.Pos())
	var pre []ast.Stmt
	call := s.Call
	newCall := &ast.CallExpr{Ellipsis: call.Ellipsis}
	if fl, ok := call.Fun.(*ast.FuncLit); ok {
		newCall.Fun = &ast.ParenExpr{X: fl}
	} else {
		id := ast.NewIdent("verif__f")
		pre = append(pre, &ast.AssignStmt{Lhs: []ast.Expr{id}, Tok: token.DEFINE, Rhs: []ast.Expr{call.Fun}})
		newCall.Fun = ast.NewIdent("verif__f")
	}
	for i, a := range call.Args {
		tv := r.info.Types[a]
		if tv.Value != nil || tv.IsNil() {
			newCall.Args = append(newCall.Args, a)
			continue
		}
		name := fmt.Sprintf("verif__a%d", i)
		pre = append(pre, &ast.AssignStmt{Lhs: []ast.Expr{ast.NewIdent(name)}, Tok: token.DEFINE, Rhs: []ast.Expr{a}})
		newCall.Args = append(newCall.Args, ast.NewIdent(name))
	}
	lit := &ast.FuncLit{
		Type: &ast.FuncType{Params: &ast.FieldList{}},
		Body: &ast.BlockStmt{List: []ast.Stmt{&ast.ExprStmt{X: newCall}}},
	}
	pre = append(pre, &ast.ExprStmt{X: &ast.CallExpr{
		Fun:  ast.NewIdent("simGo"),
		Args: []ast.Expr{lit, &ast.BasicLit{Kind: token.STRING, Value: fmt.Sprintf("%q", site)}},
	}})
	r.changed = true
	report = append(report, siteReport{Kind: "T3", Site: site})
	return &ast.BlockStmt{List: pre}
}

func (r *rewriter) rangeStmt(s *ast.RangeStmt) ast.Stmt {
	tv, ok := r.info.Types[s.X]
	if !ok || tv.Type == nil {
		return s
	}
	mt, ok := tv.Type.Underlying().(*types.Map)
	if !ok {
		return s
	}
	site := r.site("T1", s.Pos())
	giveUp := func(why string) ast.Stmt {
		uncontrolled = append(uncontrolled, siteReport{Kind: "T1", Site: site, Note: why})
		return s
	}
	if !canonicalisable(mt.Key()) {
		return giveUp("key type " + mt.Key().String() + " has no canonical order")
	}
	xs := exprString(r.fset, s.X)
	// the snapshot semantics of simEntries differ from Go's only if the body
	// mutates the ranged map, or captures the iteration variables.
	var bad string
	keyName, valName := identName(s.Key), identName(s.Value)
	ast.Inspect(s.Body, func(n ast.Node) bool {
		switch n := n.(type) {
		case *ast.AssignStmt:
			for _, l := range n.Lhs {
				if ix, ok := l.(*ast.IndexExpr); ok && exprString(r.fset, ix.X) == xs {
					bad = "body assigns to the ranged map"
				}
			}
		case *ast.CallExpr:
			if id, ok := n.Fun.(*ast.Ident); ok && (id.Name == "delete" || id.Name == "clear") && len(n.Args) > 0 && exprString(r.fset, n.Args[0]) == xs {
				bad = "body deletes from the ranged map"
			}
		case *ast.FuncLit:
			ast.Inspect(n.Body, func(m ast.Node) bool {
				if id, ok := m.(*ast.Ident); ok && (id.Name == keyName || id.Name == valName) && id.Name != "" && id.Name != "_" {
					bad = "closure captures an iteration variable"
				}
				return true
			})
		case *ast.UnaryExpr:
			if id, ok := n.X.(*ast.Ident); ok && n.Op == token.AND && (id.Name == keyName || id.Name == valName) && id.Name != "_" && id.Name != "" {
				bad = "address of an iteration variable taken"
			}
		}
		return true
	})
	if bad != "" {
		return giveUp(bad)
	}
	e := ast.NewIdent("verif__e")
	var lhs, rhs []ast.Expr
	if keyName != "" && keyName != "_" {
		lhs = append(lhs, s.Key)
		rhs = append(rhs, &ast.SelectorExpr{X: e, Sel: ast.NewIdent("K")})
	}
	if valName != "" && valName != "_" {
		lhs = append(lhs, s.Value)
		rhs = append(rhs, &ast.SelectorExpr{X: ast.NewIdent("verif__e"), Sel: ast.NewIdent("V")})
	}
	if (s.Key != nil && keyName == "") || (s.Value != nil && valName == "") {
		return giveUp("iteration variable is not a plain identifier")
	}
	newRange := &ast.RangeStmt{
		For: s.For,
		Tok: token.DEFINE,
		X: &ast.CallExpr{Fun: ast.NewIdent("simEntries"), Args: []ast.Expr{
			s.X, &ast.BasicLit{Kind: token.STRING, Value: fmt.Sprintf("%q", site)}}},
		Body: s.Body,
	}
	if len(lhs) > 0 {
		newRange.Key = ast.NewIdent("_")
		newRange.Value = e
		tok := s.Tok
		if tok == token.ILLEGAL {
			tok = token.DEFINE
		}
		assign := &ast.AssignStmt{Lhs: lhs, Tok: tok, Rhs: rhs}
		newRange.Body = &ast.BlockStmt{Lbrace: s.Body.Lbrace, Rbrace: s.Body.Rbrace,
			List: append([]ast.Stmt{assign}, s.Body.List...)}
	} else {
		newRange.Tok = token.ILLEGAL
	}
	r.changed = true
	report = append(report, siteReport{Kind: "T1", Site: site, Note: mt.String()})
	return newRange
}

func identName(e ast.Expr) string {
	if e == nil {
		return ""
	}
	if id, ok := e.(*ast.Ident); ok {
		return id.Name
	}
	return ""
}

// canonicalisable reports whether simKeyName can order keys of this type
// without help: basic kinds, or types with a naming method.
func canonicalisable(t types.Type) bool {
	switch u := t.Underlying().(type) {
	case *types.Basic:
		return u.Info()&(types.IsString|types.IsInteger|types.IsBoolean|types.IsFloat) != 0
	case *types.Interface:
		// (added for mapsim/C15: astool's jen.Dict is map[jen.Code]jen.Code) the
		// dynamic key type decides at run time: simKeyName either names every key
		// uniquely (e.g. *jen.Statement through GoString) or SimUncontrolled fires
		// and the site keeps runtime order, so accepting the site fails closed.
		return true
	}
	for _, m := range []string{"VerifKeyName", "String", "GetName", "TypeName", "PropertyName", "GoString"} {
		obj, _, _ := types.LookupFieldOrMethod(t, true, nil, m)
		if fn, ok := obj.(*types.Func); ok {
			sig := fn.Type().(*types.Signature)
			if sig.Params().Len() == 0 && sig.Results().Len() == 1 {
				if b, ok := sig.Results().At(0).Type().Underlying().(*types.Basic); ok && b.Kind() == types.String {
					return true
				}
			}
		}
	}
	return false
}

func exprString(fset *token.FileSet, e ast.Expr) string {
	var b bytes.Buffer
	printer.Fprint(&b, fset, e)
	return b.String()
}

const simrtSrc = `//go:build go1.21

// Code generated by /verif/instr at check time; never written into the repository.

package PKG

import (
	"fmt"
	"sort"
	"sync"
)

// Hooks the simulator sets. All nil: behaviour identical to the original code
// except that map iteration happens in sorted key order.
var (
	// SimMapPerm returns a permutation of 0..n-1 applied to the sorted keys at a site.
	SimMapPerm func(site string, n int) []int
	// SimBeforeLock is called before the real mutex Lock; it may park the caller.
	SimBeforeLock func(m *sync.Mutex, site string)
	// SimAfterUnlock is called after the real mutex Unlock.
	SimAfterUnlock func(m *sync.Mutex, site string)
	// SimGo replaces the go statement; nil: plain go.
	SimGo func(fn func(), site string)
	// SimUncontrolled is told about keys that could not be ordered canonically.
	SimUncontrolled func(site string)
)

type simEntry[K comparable, V any] struct {
	K K
	V V
}

type simNamed struct {
	name string
	idx  int
}

func simKeyName(k any) (string, bool) {
	switch v := k.(type) {
	case string:
		return v, true
	case interface{ VerifKeyName() string }:
		return v.VerifKeyName(), true
	case fmt.Stringer:
		return v.String(), true
	case interface{ GetName() string }:
		return v.GetName(), true
	case interface{ TypeName() string }:
		return v.TypeName(), true
	case interface{ PropertyName() string }:
		return v.PropertyName(), true
	case fmt.GoStringer:
		return v.GoString(), true
	case int, int8, int16, int32, int64, uint, uint8, uint16, uint32, uint64, uintptr:
		return fmt.Sprintf("%020d", v), true
	case bool, float32, float64:
		return fmt.Sprint(v), true
	}
	return "", false
}

func simEntries[K comparable, V any](m map[K]V, site string) []simEntry[K, V] {
	es := make([]simEntry[K, V], 0, len(m))
	for k, v := range m {
		es = append(es, simEntry[K, V]{k, v})
	}
	if len(es) < 2 {
		return es
	}
	names := make([]simNamed, len(es))
	ok := true
	for i := range es {
		n, good := simKeyName(es[i].K)
		ok = ok && good
		names[i] = simNamed{n, i}
	}
	sort.SliceStable(names, func(i, j int) bool { return names[i].name < names[j].name })
	for i := 1; i < len(names); i++ {
		if names[i].name == names[i-1].name {
			ok = false
		}
	}
	if !ok {
		if SimUncontrolled != nil {
			SimUncontrolled(site)
		}
		return es
	}
	sorted := make([]simEntry[K, V], len(es))
	for i, n := range names {
		sorted[i] = es[n.idx]
	}
	if SimMapPerm == nil {
		return sorted
	}
	perm := SimMapPerm(site, len(sorted))
	out := make([]simEntry[K, V], len(sorted))
	for i, p := range perm {
		out[i] = sorted[p]
	}
	return out
}

// SimLockStuck is called when the simulator's lock table granted the mutex (nobody the simulator knows of holds it) and the real
// mutex is locked all the same - a mutex value copied while held, for instance. It does not return in a simulation (the caller
// would block for ever in m.Lock, which a synctest bubble cannot see); it parks the caller durably so that the run ends in a
// deadlock verdict.
var SimLockStuck func(m *sync.Mutex, site string)

func simLock(m *sync.Mutex, site string) {
	if SimBeforeLock != nil {
		SimBeforeLock(m, site)
	}
	if SimLockStuck != nil {
		if m.TryLock() {
			return
		}
		SimLockStuck(m, site)
	}
	m.Lock()
}

func simUnlock(m *sync.Mutex, site string) {
	m.Unlock()
	if SimAfterUnlock != nil {
		SimAfterUnlock(m, site)
	}
}

// SimBeforeSend is called before a channel send of the library; it may park the caller.
var SimBeforeSend func(site string)

func simSend[T any](ch chan<- T, v T, site string) {
	if SimBeforeSend != nil {
		SimBeforeSend(site)
	}
	ch <- v
}

func simGo(fn func(), site string) {
	if SimGo != nil {
		SimGo(fn, site)
		return
	}
	go fn()
}
`

// appended to the runtime file only with -t5
const simrtT5Src = `
// SimAfterRecv is called right after a channel receive of the library completed (T5); it may park the caller.
var SimAfterRecv func(site string)

func simAfterRecv(site string) {
	if SimAfterRecv != nil {
		SimAfterRecv(site)
	}
}

func simSendPoint(site string) {
	if SimBeforeSend != nil {
		SimBeforeSend(site)
	}
}
`
