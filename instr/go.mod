module verifinstr

go 1.26.8
