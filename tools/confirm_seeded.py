#!/usr/bin/env python3
"""confirm_seeded.py <src dir> <name> <PROP[,PROP...]>: confirm a seeded change myself and file it under /verif/seeded/<name>/.
Steps (all in a scratch worktree of /repo HEAD, removed afterwards): demo passes on the unchanged tree; the patch applies; the tree builds;
the existing pub/astool tests fail exactly where they fail on the unchanged tree; the demo fails with the change; then the listed checks run
against the changed tree (quick, then thorough with a 60 s budget if quick misses it)."""
import json, os, re, shutil, subprocess, sys, tempfile
ENV = dict(os.environ, GOFLAGS="-mod=mod", GOPROXY="off", GOSUMDB="off", GOTOOLCHAIN="local")
BASE_FAIL = {"TestDeliver", "TestHttpSigTransportDereference"}
def sh(cmd, cwd=None, env=ENV, timeout=3600):
    p = subprocess.run(cmd, shell=True, cwd=cwd, env=env, stdout=subprocess.PIPE, stderr=subprocess.STDOUT, text=True, timeout=timeout)
    return p.returncode, p.stdout
def failing(out):
    return {m.group(1).split("/")[0] for m in re.finditer(r"^\s*--- FAIL: (\S+)", out, re.M)}
subprocess.run([os.path.join(os.path.dirname(os.path.abspath(__file__)), "trimcache.sh")])
src, name, props = sys.argv[1], sys.argv[2], sys.argv[3].split(",")
meta = json.load(open(os.path.join(src, "meta.json")))
wt = tempfile.mkdtemp(prefix="seedwt-"); os.rmdir(wt)
rc, out = sh("git -C /repo worktree add --detach %s HEAD" % wt)
assert rc == 0, out
res = {"ran": []}
try:
    is_go_demo = os.path.exists(os.path.join(src, "demo_test.go"))
    demo_name = meta.get("demo_test", "")
    def run_demo():
        if is_go_demo:
            shutil.copy(os.path.join(src, "demo_test.go"), os.path.join(wt, "pub", "zz_demo_test.go"))
            rc, out = sh("go test -vet=off -count=1 -run '%s' ./pub/" % demo_name, cwd=wt)
            os.remove(os.path.join(wt, "pub", "zz_demo_test.go"))
            return rc, out
        return sh("bash %s %s" % (os.path.join(src, "demo.sh"), wt))
    rc, out = run_demo()
    res["demo_unchanged_rc"] = rc
    assert rc == 0, "demo does not pass on the unchanged tree:\n" + out[-1500:]
    rc, out = sh("git apply --3way %s" % os.path.join(os.path.abspath(src), "patch.diff"), cwd=wt)
    assert rc == 0, "patch does not apply: " + out
    sh("git reset -q", cwd=wt)
    rc, patch = sh("git diff", cwd=wt)
    rc, out = sh("go build ./...", cwd=wt)
    assert rc == 0, "does not build: " + out[-1500:]
    rc, out = sh("go test -vet=off -count=1 ./pub/... ./astool/...", cwd=wt)
    f = failing(out)
    res["existing_tests_failing"] = sorted(f)
    assert f <= BASE_FAIL, "existing tests fail beyond the baseline: %s" % sorted(f - BASE_FAIL)
    rc, out = run_demo()
    res["demo_changed_rc"] = rc
    assert rc != 0, "demo does not fail with the change"
    caught_by = []
    for prop in props:
        for tier, budget in (("quick", ""), ("thorough", "240" if prop == "C08" else "60")):
            e = dict(ENV, VERIF_REPO=wt)
            if budget:
                e["VERIF_BUDGET_S"] = budget
            if prop == "C15":
                e["VERIF_C15_OUT"] = tempfile.mkdtemp(prefix="c15out-")
            rc, out = sh("%s/check %s %s" % (os.environ.get("VERIF_HOME", "/verif"), prop, tier), env=e, timeout=7200)
            viol = [l.replace(wt, "/repo") for l in out.splitlines() if l.startswith("VIOLATION")]
            sigs = [l.strip().replace(wt, "/repo") for l in out.splitlines() if l.strip().startswith("signature:")]
            res["ran"].append({"cmd": "VERIF_REPO=<worktree with patch> ./check %s %s%s" % (prop, tier, (" (VERIF_BUDGET_S=%s)" % budget) if budget else ""), "exit": rc, "violations": len(viol), "signatures": sigs[:6]})
            if prop == "C15":
                shutil.rmtree(e["VERIF_C15_OUT"], ignore_errors=True)
            if rc == 1:
                caught_by.append("%s %s" % (prop, tier))
                break
            assert rc == 0, "check exited %d:\n%s" % (rc, out[-1500:])
    res["caught_by"] = caught_by
    dst = os.path.join("/verif/seeded", name)
    os.makedirs(dst, exist_ok=True)
    open(os.path.join(dst, "patch.diff"), "w").write(patch)
    for fn in ("demo_test.go", "demo.sh"):
        if os.path.exists(os.path.join(src, fn)):
            shutil.copy(os.path.join(src, fn), os.path.join(dst, fn))
    for fn in os.listdir(src):
        if fn.endswith(".jsonld"):
            shutil.copy(os.path.join(src, fn), os.path.join(dst, fn))
    rc, head = sh("git -C /repo log --format=%h -1")
    json.dump({"breaks_property": meta.get("property"), "summary": meta.get("summary"), "needs_to_manifest": meta.get("needs"), "files": meta.get("files"),
               "demonstration": ("pub/zz_demo_test.go := demo_test.go; go test -run %s ./pub/" % demo_name) if is_go_demo else "bash demo.sh <repo>",
               "origin": "written by a sub-agent that saw only the property text and a scratch worktree", "confirmed_against_repo_head": head.strip(),
               "what_i_ran": res}, open(os.path.join(dst, "meta.json"), "w"), indent=1)
    print(name, "caught by:", caught_by or "NOTHING")
finally:
    sh("git -C /repo worktree remove --force %s" % wt)
