#!/bin/bash
# Determinism self-test: the same (property, seed, shard) must give byte-identical shard output
# (minus wall time) across repeated processes and GOMAXPROCS values.
# usage: selftest_determinism.sh "C08 C09" [nseeds] [cases]
set -u
props=${1:-"C08 C09"}; nseeds=${2:-10}; cases=${3:-6}
tmp=$(mktemp -d /tmp/verif-det-XXXXXX); trap 'rm -rf "$tmp"' EXIT
export GOFLAGS=-mod=mod GOPROXY=off GOSUMDB=off GOTOOLCHAIN=local
cd /verif
python3 - "$tmp" <<'P'
import sys,os
sys.argv=[sys.argv[0]]+sys.argv[1:]
import importlib.machinery, importlib.util
loader=importlib.machinery.SourceFileLoader("check","/verif/check"); spec=importlib.util.spec_from_loader("check",loader); m=importlib.util.module_from_spec(spec); loader.exec_module(m)
binp,_=m.build(sys.argv[1]); print("built",binp)
P
bin=$tmp/sim.test; fail=0; n=0
for p in $props; do
 for seed in $(seq 1 $nseeds); do
  for mp in 1 4 16; do for rep in a b; do
   ( GOMAXPROCS=$mp VERIF_MODE=shard VERIF_PROP=$p VERIF_TIER=thorough VERIF_CASES=$cases VERIF_SEED=$seed VERIF_SHARD=0/1 VERIF_BUDGET_S=3000 VERIF_OUT=$tmp/o.$p.$seed.$mp.$rep $bin -test.run '^TestSim$' -test.timeout 0 >/dev/null 2>&1
     python3 -c "
import json,sys,hashlib
j=json.load(open('$tmp/o.$p.$seed.$mp.$rep')); j.pop('wall_s',None)
print(hashlib.sha256(json.dumps(j,sort_keys=True).encode()).hexdigest(), j['runs'])" > $tmp/h.$p.$seed.$mp.$rep ) &
  done; done; wait
  u=$(cat $tmp/h.$p.$seed.* | sort -u | wc -l); n=$((n+6))
  if [ "$u" != "1" ]; then echo "NONDETERMINISTIC $p seed=$seed"; cat $tmp/h.$p.$seed.*; fail=1; fi
 done
done
echo "determinism: $n processes compared, fail=$fail"
exit $fail
