#!/bin/bash
# mutest.sh <patch.diff> <PROP> [tier] [budget]: run a check against a scratch worktree of /repo HEAD with the patch applied.
set -u
"$(dirname "$0")"/trimcache.sh
patch=$(readlink -f "$1"); prop=$2; tier=${3:-quick}; budget=${4:-}
wt=$(mktemp -d /tmp/mt-XXXXXX); rmdir "$wt"
git -C /repo worktree add --detach "$wt" HEAD >/dev/null 2>&1 || { echo "worktree failed"; exit 2; }
trap 'git -C /repo worktree remove --force "$wt" >/dev/null 2>&1' EXIT
if ! git -C "$wt" apply --3way "$patch" >/dev/null 2>&1; then echo "PATCH DOES NOT APPLY"; exit 3; fi
if [ -n "$budget" ]; then export VERIF_BUDGET_S=$budget; fi
VERIF_REPO="$wt" ${VERIF_HOME:-/verif}/check "$prop" "$tier" 2>&1 | sed "s#$wt#/repo#g" | grep -vE "^  (detail|signature)" | cut -c1-300
exit ${PIPESTATUS[0]}
