#!/bin/bash
# refactor_test.sh <patch.diff> [props...]: a behaviour-preserving change must not make any check raise an alarm.
"$(dirname "$0")"/trimcache.sh
patch=$(readlink -f "$1"); shift
props=${*:-"C02 C03 C04 C05 C06 C07 C08 C09 C10 C11 C16 C17 C19 C20"}
wt=$(mktemp -d /tmp/rf-XXXXXX); rmdir "$wt"
git -C /repo worktree add --detach "$wt" HEAD >/dev/null 2>&1 || { echo "worktree failed"; exit 2; }
trap 'git -C /repo worktree remove --force "$wt" >/dev/null 2>&1' EXIT
if ! git -C "$wt" apply --3way "$patch" >/dev/null 2>&1; then echo "PATCH DOES NOT APPLY"; exit 3; fi
(cd "$wt" && GOFLAGS=-mod=mod GOPROXY=off GOSUMDB=off go build ./... ) || { echo "DOES NOT BUILD"; exit 3; }
f=$(cd "$wt" && GOFLAGS=-mod=mod GOPROXY=off GOSUMDB=off go test -vet=off -count=1 ./pub/... ./astool/... 2>&1 | grep -E "^--- FAIL" | grep -vE "TestDeliver |TestHttpSigTransportDereference " | head -3)
[ -n "$f" ] && { echo "EXISTING TESTS FAIL: $f"; exit 3; }
bad=0
for p in $props; do
  out=$(VERIF_REPO="$wt" ${VERIF_HOME:-/verif}/check $p quick 2>&1); rc=$?
  if [ $rc -ne 0 ] || echo "$out" | grep -q "^VIOLATION"; then bad=$((bad+1)); echo "### $p rc=$rc"; echo "$out" | sed "s#$wt#/repo#g" | grep -vE "^(KNOWN|warning)" | cut -c1-500 | head -14; fi
done
echo "refactor_test: $(basename $(dirname $patch)) alarms=$bad"
exit $bad
