#!/bin/bash
# trimcache.sh [limit_gb]: the linked simulator binaries of many scratch trees pile up in the Go build cache (about 0.3 GB per
# build); empty it when it exceeds the limit (default 150 GB) AND no Go build is running (emptying the cache under a running build
# makes that build fail). Used by the tools that build against many scratch trees, never by a check.
limit=${1:-150}
d=$(GOTOOLCHAIN=local go env GOCACHE 2>/dev/null); [ -d "$d" ] || exit 0
gb=$(du -s --block-size=1G "$d" 2>/dev/null | cut -f1)
if [ "${gb:-0}" -gt "$limit" ]; then
  if pgrep -x compile >/dev/null || pgrep -x link >/dev/null || pgrep -x go >/dev/null || pgrep -x go1.26.8 >/dev/null; then
    echo "trimcache: $d holds ${gb} GB but a build is running; not touching it" >&2
  else
    echo "trimcache: $d holds ${gb} GB, emptying" >&2; GOTOOLCHAIN=local go clean -cache 2>/dev/null
  fi
fi
exit 0
