#!/usr/bin/env python3
"""mk_sens_table.py: rewrite the table of DESIGN.md §8.3 from /verif/seeded/*/meta.json (one row per filed change)."""
import json, glob, os, re
V = os.path.dirname(os.path.dirname(os.path.abspath(__file__)))
def key(p):
    n = os.path.basename(os.path.dirname(p)); a, b = n.split("-"); return (a, int(b))
rows = []
for m in sorted(glob.glob(os.path.join(V, "seeded", "*", "meta.json")), key=key):
    d = json.load(open(m)); n = os.path.basename(os.path.dirname(m))
    caught = ", ".join(d.get("what_i_ran", {}).get("caught_by", [])) or "**not caught** (see text)"
    cell = lambda s: (s or "").replace("|", "\\|").replace("\n", " ")[:150]
    rows.append("| %s | %s | %s | %s |" % (n, cell(d.get("summary")), cell(d.get("needs_to_manifest")), caught))
p = os.path.join(V, "DESIGN.md"); s = open(p).read()
hdr = "| name | change | needs | caught by |\n|------|--------|-------|-----------|\n"
i = s.index(hdr) + len(hdr); j = s.index("\n\n", i)
open(p, "w").write(s[:i] + "\n".join(rows) + s[j:])
print(len(rows), "rows")
