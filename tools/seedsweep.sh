#!/bin/bash
# seedsweep.sh "<props>" <from> <to> [tier] [budget]: run checks under many VERIF_SEED values on the unchanged tree; any VIOLATION or non-zero exit is printed.
props=$1; from=$2; to=$3; tier=${4:-quick}; budget=${5:-}
cd "$(dirname "$0")/.."
bad=0
for s in $(seq $from $to); do for p in $props; do
  if [ -n "$budget" ]; then export VERIF_BUDGET_S=$budget; fi
  out=$(VERIF_SEED=$s ./check $p $tier 2>&1); rc=$?
  if [ $rc -ne 0 ] || echo "$out" | grep -q "^VIOLATION"; then bad=$((bad+1)); echo "### $p seed=$s rc=$rc"; echo "$out" | grep -vE "^(KNOWN|warning)" | cut -c1-600 | head -12; mkdir -p /tmp/seedsweep-replays; cp replays/${p}-*.json /tmp/seedsweep-replays/ 2>/dev/null; fi
done; done
echo "seedsweep done: props=[$props] seeds=$from..$to tier=$tier bad=$bad"
