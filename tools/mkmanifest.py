#!/usr/bin/env python3
"""Regenerates /verif/MANIFEST.json from the table below (kept in one place so it stays valid)."""
import json, os
V = os.path.dirname(os.path.dirname(os.path.abspath(__file__)))
NA = {
 "C01": "pure function of one JSON document (decode->encode); no schedule, clock, I/O, fault or second party for a simulator to control - deciding it needs grammar-based input generation, another technique",
 "C12": "static table (type x property x value kind) of a pure decoder read through accessors; no state, time, I/O or multi-party behaviour",
 "C13": "63x63 pure boolean predicates over a static hierarchy; nothing to schedule or fault",
 "C14": "resolver dispatch is a pure synchronous function of (value, callback list); no seam",
 "C18": "single-threaded in-memory containers, not concurrency-safe by contract, no I/O; operation-sequence testing is model-based input testing, not simulation",
}
ALL = ["C%02d" % i for i in range(1, 21)]
CLAIMED = {
 "C09": dict(level="fault_enumeration", technique="deterministic simulation: lock-discipline monitor in the simulated Database under a complete single-fault sweep of every seam call (pairs, generated addressing and 2-request interleavings sampled in thorough)",
   text="Every scenario of a corpus covering all default side-effect paths is run fault-free and once per fallible Database/Transport/callback call with that call failing; a monitor inside the simulated Database checks balance, re-entry, unlock-without-lock and lock-held-on-access per request. The single-fault space of the corpus is swept completely; everything beyond is seeded sampling.",
   note="Trusts SimDB's lock semantics (non-reentrant per-id mutex; failed Lock takes nothing, failed Unlock still frees) as the meaning of 'good-faith application'; 'holds a lock' = holds at least one. Evidence is sampling beyond the swept corpus, not proof.",
   design="5/C09"),
 "C08": dict(level="exploration", technique="deterministic simulation: seeded schedule search (random walk, sticky, PCT) over 2-5 concurrent requests at Database/Transport/callback granularity; sequential-equivalence oracle, porcupine linearizability of inbox/outbox histories, deadlock detection by wait-for cycles",
   text="Real Actor methods run as tasks under a seeded scheduler that owns every interleaving at seam granularity, with nested deliveries between two simulated servers. Each concurrent run is compared, collection by collection, with the same requests executed sequentially in every order; inbox/outbox post/read histories are checked with porcupine; duplicate deliveries are counted; a fault class checks that everything still completes when one call fails.",
   note="Sampling of schedules (seeded), not exhaustive enumeration. Assumes SimDB's per-id mutual exclusion and copy semantics. Sequential reference is the library itself run one request at a time.",
   design="5/C08"),
}
PENDING = [p for p in ALL if p not in NA and p not in CLAIMED]
checks = []
for pid in sorted(CLAIMED):
    c = CLAIMED[pid]
    checks.append({
        "property_id": pid, "quick_cmd": "./check %s quick" % pid, "thorough_cmd": "./check %s thorough" % pid,
        "evidence_file": "/verif/evidence/%s.json" % pid, "replay_cmd_template": "./check replay {path}",
        "engine": c.get("engine", "fedsim"),
        "level_claimed": {"category": c["level"], "text": c["text"], "design_ref": "DESIGN.md section " + c["design"]},
        "level_note": c["note"], "technique": c["technique"],
    })
m = {
 "version": 1,
 "setup_cmd": "./setup",
 "hooks": {"guard": "verif", "enable": "no hook is committed to /repo: ./check generates instrumented copies of pub/*.go and streams/util.go with /verif/instr (go/ast rewrite of map ranges, sync.Mutex calls and go statements) and builds through `go test -overlay`; the guard name is reserved but unused",
           "baseline_off_cmd": "cd /repo && GOFLAGS=-mod=mod GOPROXY=off GOSUMDB=off go test -vet=off -count=1 ./...", "source_commits": [], "add_only": True},
 "engines": [
  {"name": "fedsim", "path": "/verif/sim", "serves_properties": [p for p in sorted(CLAIMED) if CLAIMED[p].get("engine", "fedsim") == "fedsim"], "kind_free_text": "deterministic simulation of 1-2 servers running the real pub actors over a simulated Database, application, transport, network and clock; seeded scheduler at seam granularity; site-addressed fault injection"},
  {"name": "txsim", "path": "/verif/sim", "serves_properties": [p for p in sorted(CLAIMED) if CLAIMED[p].get("engine") == "txsim"], "kind_free_text": "real HttpSigTransport + real httpsig over a simulated HTTP client; goroutines and mutexes of the library put behind the scheduler by build-time rewriting"},
  {"name": "mapsim", "path": "/verif/mapsim", "serves_properties": [p for p in sorted(CLAIMED) if CLAIMED[p].get("engine") == "mapsim"], "kind_free_text": "astool built with every map iteration behind a seeded permutation; output trees compared"},
 ],
 "checks": checks,
 "notes": "See DESIGN.md. known_findings.json lists repaired (fixed:) and recorded (known) genuine defects; seeded/ holds confirmed property-breaking changes used to test the checks.",
 "not_applicable": [{"property_id": k, "reason": v} for k, v in NA.items()] +
                   [{"property_id": k, "reason": "check not built yet (planned: deterministic simulation, see DESIGN.md section 5)"} for k in PENDING],
}
json.dump(m, open(os.path.join(V, "MANIFEST.json"), "w"), indent=1)
print("claimed:", sorted(CLAIMED), "pending:", PENDING)
