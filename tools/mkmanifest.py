#!/usr/bin/env python3
"""Regenerates /verif/MANIFEST.json from the table below (kept in one place so it stays valid)."""
import json, os
V = os.path.dirname(os.path.dirname(os.path.abspath(__file__)))
NA = {
 "C01": "pure function of one JSON document (decode->encode); no schedule, clock, I/O, fault or second party for a simulator to control - deciding it needs grammar-based input generation, another technique",
 "C12": "static table (type x property x value kind) of a pure decoder read through accessors; no state, time, I/O or multi-party behaviour",
 "C13": "63x63 pure boolean predicates over a static hierarchy; nothing to schedule or fault",
 "C14": "resolver dispatch is a pure synchronous function of (value, callback list); no seam",
 "C18": "single-threaded in-memory containers, not concurrency-safe by contract, no I/O; operation-sequence testing is model-based input testing, not simulation",
}
ALL = ["C%02d" % i for i in range(1, 21)]
CLAIMED = {
 "C09": dict(level="fault_enumeration", technique="deterministic simulation: lock-discipline monitor in the simulated Database under a complete single-fault sweep of every seam call (pairs, generated addressing and 2-request interleavings sampled in thorough)",
   text="Every scenario of a corpus covering all default side-effect paths is run fault-free and once per fallible Database/Transport/callback call with that call failing; a monitor inside the simulated Database checks balance, re-entry, unlock-without-lock and lock-held-on-access per request. The single-fault space of the corpus is swept completely; everything beyond is seeded sampling.",
   note="Trusts SimDB's lock semantics (non-reentrant per-id mutex; failed Lock takes nothing, failed Unlock still frees) as the meaning of 'good-faith application'; 'holds a lock' = holds at least one. Evidence is sampling beyond the swept corpus, not proof.",
   design="5/C09"),
 "C02": dict(level="exploration", technique="deterministic simulation: seeded federation graphs with per-IRI fetch faults (unreachable / garbled / unknown-type peers) served through the simulated network; executable recipient-resolution model as oracle",
   text="The real outbox path (PostOutbox/Send -> prepare -> resolveActors -> BatchDeliver) runs against a simulated federation whose documents are served by the real ActivityStreams handler of peer servers or by scripted remote hosts with injected fetch faults; the BatchDeliver recipient set and the Dereference log are compared with a reference model that knows the same fault plan.",
   note="Seeded sampling of graphs, addressings and fates. The model is written from the statement (set semantics); documents that parse but lack an inbox are out of scope here (C11).", design="5/C02"),
 "C03": dict(level="exploration", technique="deterministic simulation: always-on wire monitor on every transport payload and handler body, GETs scheduled concurrently with deliveries, protocol configurations and fetch faults varied per run",
   text="Every payload handed to an outbox-bound transport and every body served by the GET handler in any fedsim run is parsed and checked for bto/bcc (activity and direct objects; handler: any object depth); a dedicated workload biases towards hidden recipients, runs Social-only / Federating-only / both, auto-accepted Follows with hidden recipients, and checks with the C02 model that the hidden recipients' inboxes are still delivered to.",
   note="Outbox-originated = transport created for an outbox IRI. Sampling, not proof.", design="5/C03"),
 "C05": dict(level="exploration", technique="deterministic simulation: seeded histories of outbox posts with a complete single-fault sweep of every seam call on a third of the cases; normalisation reference model, event-order monitor and outbox-history check",
   text="Histories of 1-8 posts run through the real PostOutbox/Send path; the values given to Database.Create are compared with a set-semantics model of wrapping and Create normalisation; the event log must show NewID < object stores < activity store < outbox write (front, once) < first transport call with Location = id; after the history the outbox lists exactly the returned ids newest first; with any Database call failing nothing may reach the transport afterwards; a crash at a random step must leave everything that reached the wire stored and listed.",
   note="Sampling of inputs; single-fault space swept completely only for the swept cases. Two readings of 'each object having gained the activity's' are both accepted.", design="5/C05"),
 "C07": dict(level="exploration", technique="deterministic simulation: per-task trace automaton over all seam calls while 1-3 requests of the entry-point x configuration x outcome product run under a seeded schedule",
   text="Every Database, Transport and application call is attributed to the request task that made it; a monitor rejects any such call before that task's authentication succeeded and, for inbox POSTs, before its block check passed; requests classified non-ActivityPub by an independent classifier must be untouched and unhandled, and a disabled protocol must answer 405 with zero application calls.",
   note="Product sampled by seed, not enumerated. Ambiguous header spellings only checked for consistency.", design="5/C07"),
 "C10": dict(level="fault_enumeration", technique="deterministic simulation: counting ResponseWriter + (handled, err) trichotomy monitor over the request product and over a complete single-fault sweep of the side-effect corpus",
   text="A recording ResponseWriter counts header and body writes (separating those the application makes inside Authenticate*); each finished entry call must be in exactly one of the three documented end states, with the status table of the statement checked by an independent request classifier; the corpus of all side-effect paths is swept with every single seam-call fault.",
   note="Single-fault sweep is complete for the corpus; the request product is sampled. 'Usable id' resolved as stated in assumptions.", design="5/C10"),
 "C04": dict(level="exploration", technique="deterministic simulation: remote-peer workload over the simulated network with fetch faults; executable model of the default inbox side effects applied to the database snapshot and compared with the real final database, wire and callback log",
   text="One inbox POST per run goes through the real PostInbox path (auth, block check, side effects, forwarding) of a simulated server; a reference model written from the statement computes the expected final documents, collection changes, automatic Accept/Reject and callback invocations from the pre-run database snapshot and the fault plan; every document of the server is compared afterwards, so any extra write (data not owned, default effect despite an 'other' callback) is seen.",
   note="Seeded sampling of activities and configurations. followers/following compared as sets, Add/Remove as multisets, likes/shares as sequences.", design="5/C04"),
 "C06": dict(level="exploration", technique="deterministic simulation with a Byzantine peer: well-formed but unauthorised activities (foreign-host objects, forged Accepts, Undo of others' activities, embedded blocked actors), authority model as oracle, database diff on rejection",
   text="Same engine as C04 with a workload of unauthorised activities: host combinations for Update/Delete, Accept/Follow graphs, Undo actor sets, blocked actors as IRIs or embedded objects. Where the model says unauthorised the request must not be answered 200 and the database must be unchanged apart from the inbox entry; the Blocked callback's argument and its position before the first side effect are checked on the event log.",
   note="One-directional (applied => authorised). Letter-case-only host differences accepted either way.", design="5/C06"),
 "C11": dict(level="exploration", technique="deterministic simulation with corruption faults: structure-aware mutation of request bodies, of documents returned by the simulated network and of values returned by the simulated Database; recover() around every task, deadlock detection and a step budget as oracle",
   text="Every scenario of the side-effect corpus is run with one hostile input placed at one of the three seams through which untrusted data reaches the library (HTTP body, Transport.Dereference result, Database return value); the fault is addressed by site, so it replays; a panic unwinding through library frames, a deadlock or exhausting 20000 seam steps is a violation.",
   note="Not coverage-guided fuzzing of the decoder: that is another technique (stated in DESIGN.md). The decoder is exercised only through these seams.", design="5/C11"),
 "C15": dict(level="exploration", engine="mapsim", technique="deterministic simulation of astool with Go map iteration order behind a seeded seam (build-time rewrite of every map range): output trees compared across seeds and with the shipped package; seeded extension ontologies must compile, be seed-independent and expose exactly the properties their ontology gives each type; when astool contains goroutines their schedule is a second seeded seam (receive/send/start points, synctest scheduler)",
   text="astool is rebuilt with each `for range map` iterating in a seeded permutation of the canonical key order; the four shipped vocabularies are regenerated under many seeds (outputs must be byte-identical to each other and syntax-tree-identical to /repo/streams), an uninstrumented run cross-checks the rewriter, and generated extension vocabularies (multiple parents across vocabularies, mixed ranges, functional/non-functional, natural-language maps, withheld-from lists) must generate identically under several seeds, compile, and declare on every generated type exactly the accessors the ontology calls for (domain over the type and its ancestors minus withheld lists). If the rewriter finds go statements or channel operations in astool (none today) astool runs under a seeded goroutine scheduler and every schedule must give the baseline tree.",
   note="For extensions compilation, seed-independence and property exposure (the structural half of C12) are checked; the value-kind half of C12 and C01/C13 inherit their not-applicable. Map iteration inside dependencies (jennifer, encoding/json) is not instrumented; one range site that mutates its own map stays uncontrolled and is reported.", design="5/C15"),
 "C17": dict(level="exploration", technique="deterministic simulation: simulated federation with duplicated / concurrent deliveries of one activity under a seeded schedule, unreachable and garbled chain links, single-fault sweep on an eighth of the cases; model of the three forwarding conditions as oracle",
   text="Activities with reply chains through embedded values and dereferenced documents are delivered 1-3 times to one or two inboxes, sequentially or interleaved; the oracle computes the three conditions from the pre-run snapshot and the fault plan and compares FilterForwarding's input, the forwarding BatchDeliver (count, recipients, payload equality with the received activity) and the number of 'seen' records; under an injected fault a request that still reports success must have forwarded; across a crash and redelivery an activity is forwarded at most once.",
   note="Recipients accepted as member ids or as their inboxes. Sampling.", design="5/C17"),
 "C19": dict(level="exploration", engine="txsim", technique="deterministic simulation of the real HttpSigTransport: its goroutines, mutexes, signer calls and HTTP calls scheduled by a seeded scheduler (build-time rewrite of go statements and sync.Mutex calls + testing/synctest), per-request response faults, real httpsig signing and verification",
   text="One transport value serves 1-3 concurrent BatchDeliver/Deliver/Dereference calls; every goroutine start, mutex acquisition, SignRequest and HttpClient.Do is a scheduling point; response status 100-599, transport errors and body read errors are injected per request; the recording signer parks inside SignRequest so that missing mutual exclusion is observed deterministically; captured requests are verified with real httpsig.",
   note="Race-freedom is decided at scheduler granularity (critical sections, spawn arguments, channel capacity, completion), not by the Go race detector, which cannot see races through the scheduler's hand-offs. Sampling of schedules.", design="5/C19"),
 "C20": dict(level="exploration", technique="deterministic simulation: GET readers interleaved with POST writers under a seeded schedule, simulated clock with per-run base, skew, zone and jump faults; body / header oracle against the value and clock reading handed to that very request",
   text="GetInbox/GetOutbox/handler requests run concurrently with posts that modify the boxes; the served body must be JSON-equal to the value the application handed to that request (de-duplicated / hidden recipients removed), Digest must be the SHA-256 of exactly the bytes written, Date the RFC 7231 rendering of a value the simulated clock returned to that task, 410 for Tombstones, ErrNotFound and nothing written for missing values.",
   note="Input dimension dominates; weakest fit for the technique (said in DESIGN.md).", design="5/C20"),
 "C16": dict(level="exploration", technique="deterministic simulation: client workload with per-server simulated clock (base, skew, zone) as the time seam; model of the documented client side effects vs database delta, wire and status",
   text="Client Update/Delete/Add/Remove/Like/Block posts run through the real outbox path; the oracle compares member-by-member merge results, Tombstones (incl. the deleted time against the exact clock value the simulated clock handed to that request), target and liked collections in order, Block's absence from the wire, and the 400-and-no-change outcome for missing members.",
   note="Input-dominated; the simulation contributes the clock seam, the alias-free database and the wire. Sampling.", design="5/C16"),
 "C08": dict(level="exploration", technique="deterministic simulation: seeded schedule search (random walk, sticky, PCT) over 2-5 concurrent requests at Database/Transport/callback granularity; sequential-equivalence oracle, porcupine linearizability of inbox/outbox histories, deadlock detection by wait-for cycles",
   text="Real Actor methods run as tasks under a seeded scheduler that owns every interleaving at seam granularity, with nested deliveries between two simulated servers. Each concurrent run is compared, collection by collection, with the same requests executed sequentially in every order; inbox/outbox post/read histories are checked with porcupine; duplicate deliveries are counted; a fault class checks that everything still completes when one call fails, and a crash class kills the server at a random step (locks vanish, database survives) and lets the peers redeliver.",
   note="Sampling of schedules (seeded), not exhaustive enumeration. Assumes SimDB's per-id mutual exclusion and copy semantics. Sequential reference is the library itself run one request at a time.",
   design="5/C08"),
}
PENDING = [p for p in ALL if p not in NA and p not in CLAIMED]
checks = []
for pid in sorted(CLAIMED):
    c = CLAIMED[pid]
    checks.append({
        "property_id": pid, "quick_cmd": "./check %s quick" % pid, "thorough_cmd": "./check %s thorough" % pid,
        "evidence_file": "/verif/evidence/%s.json" % pid, "replay_cmd_template": "./check replay {path}",
        "engine": c.get("engine", "fedsim"),
        "level_claimed": {"category": c["level"], "text": c["text"], "design_ref": "DESIGN.md section " + c["design"]},
        "level_note": c["note"], "technique": c["technique"],
    })
m = {
 "version": 1,
 "setup_cmd": "./setup",
 "hooks": {"guard": "verif", "enable": "no hook is committed to /repo: ./check generates instrumented copies of pub/*.go and streams/util.go with /verif/instr (go/ast rewrite of map ranges, sync.Mutex calls, go statements and channel sends) and builds through `go test -overlay`; the guard name is reserved but unused",
           "baseline_off_cmd": "cd /repo && GOFLAGS=-mod=mod GOPROXY=off GOSUMDB=off go test -vet=off -count=1 ./...", "source_commits": [], "add_only": True},
 "engines": [
  {"name": "fedsim", "path": "/verif/sim", "serves_properties": [p for p in sorted(CLAIMED) if CLAIMED[p].get("engine", "fedsim") == "fedsim"], "kind_free_text": "deterministic simulation of 1-2 servers running the real pub actors over a simulated Database, application, transport, network and clock; seeded scheduler at seam granularity; site-addressed fault injection"},
  {"name": "txsim", "path": "/verif/sim", "serves_properties": [p for p in sorted(CLAIMED) if CLAIMED[p].get("engine") == "txsim"], "kind_free_text": "real HttpSigTransport + real httpsig over a simulated HTTP client; goroutines and mutexes of the library put behind the scheduler by build-time rewriting"},
  {"name": "mapsim", "path": "/verif/mapsim", "serves_properties": [p for p in sorted(CLAIMED) if CLAIMED[p].get("engine") == "mapsim"], "kind_free_text": "astool built with every map iteration behind a seeded permutation; output trees compared"},
 ],
 "checks": checks,
 "notes": "See DESIGN.md. known_findings.json lists repaired (fixed:) and recorded (known) genuine defects; seeded/ holds confirmed property-breaking changes used to test the checks.",
 "not_applicable": [{"property_id": k, "reason": v} for k, v in NA.items()] +
                   [{"property_id": k, "reason": "check not built yet (planned: deterministic simulation, see DESIGN.md section 5)"} for k in PENDING],
}
json.dump(m, open(os.path.join(V, "MANIFEST.json"), "w"), indent=1)
print("claimed:", sorted(CLAIMED), "pending:", PENDING)
