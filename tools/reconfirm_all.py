#!/usr/bin/env python3
"""reconfirm_all.py [names...]: re-apply every filed seeded change to the current /repo HEAD, regenerate its patch.diff against that HEAD,
re-run its demonstration both ways and the check(s) that caught it; update meta.json. Prints one line per change."""
import json, os, re, shutil, subprocess, sys, tempfile
ENV = dict(os.environ, GOFLAGS="-mod=mod", GOPROXY="off", GOSUMDB="off", GOTOOLCHAIN="local")
def sh(cmd, cwd=None, env=ENV, timeout=7200):
    p = subprocess.run(cmd, shell=True, cwd=cwd, env=env, stdout=subprocess.PIPE, stderr=subprocess.STDOUT, text=True, timeout=timeout)
    return p.returncode, p.stdout
names = sys.argv[1:] or sorted(os.listdir("/verif/seeded"))
rc, head = sh("git -C /repo log --format=%h -1"); head = head.strip()
bad = 0
for name in names:
    d = os.path.join("/verif/seeded", name)
    meta = json.load(open(os.path.join(d, "meta.json")))
    wt = tempfile.mkdtemp(prefix="rcwt-"); os.rmdir(wt)
    sh("git -C /repo worktree add --detach %s HEAD" % wt)
    try:
        is_go = os.path.exists(os.path.join(d, "demo_test.go"))
        m = re.search(r"-run (\S+)", meta.get("demonstration", ""))
        def demo():
            if is_go:
                shutil.copy(os.path.join(d, "demo_test.go"), os.path.join(wt, "pub", "zz_demo_test.go"))
                r = sh("go test -vet=off -count=1 -run '%s' ./pub/" % (m.group(1) if m else "."), cwd=wt)
                os.remove(os.path.join(wt, "pub", "zz_demo_test.go"))
                return r
            return sh("bash %s %s" % (os.path.join(d, "demo.sh"), wt))
        r0, o0 = demo()
        ra, oa = sh("git apply --3way %s" % os.path.join(d, "patch.diff"), cwd=wt)
        if ra != 0:
            print(name, "PATCH NO LONGER APPLIES"); bad += 1; continue
        sh("git reset -q", cwd=wt)
        _, patch = sh("git diff", cwd=wt)
        rb, ob = sh("go build ./...", cwd=wt)
        r1, o1 = demo()
        caught = []
        for cb in (meta["what_i_ran"].get("caught_by") or []):
            prop, tier = cb.split()
            e = dict(ENV, VERIF_REPO=wt)
            if tier == "thorough":
                e["VERIF_BUDGET_S"] = "240" if prop == "C08" else "90"
            if prop == "C15":
                e["VERIF_C15_OUT"] = tempfile.mkdtemp(prefix="c15out-")
            rcx, out = sh("%s/check %s %s" % (os.environ.get("VERIF_HOME", "/verif"), prop, tier), env=e)
            if prop == "C15":
                shutil.rmtree(e["VERIF_C15_OUT"], ignore_errors=True)
            if rcx == 1:
                caught.append(cb)
        ok = r0 == 0 and rb == 0 and r1 != 0 and caught == (meta["what_i_ran"].get("caught_by") or [])
        if not ok:
            bad += 1
        open(os.path.join(d, "patch.diff"), "w").write(patch)
        meta["reconfirmed_against_repo_head"] = head
        meta["reconfirmed"] = {"demo_unchanged_rc": r0, "builds": rb == 0, "demo_changed_rc": r1, "still_caught_by": caught}
        json.dump(meta, open(os.path.join(d, "meta.json"), "w"), indent=1)
        print(name, "OK" if ok else "ATTENTION", "demo %d/%d" % (r0, r1), "caught", caught)
    finally:
        sh("git -C /repo worktree remove --force %s" % wt)
print("reconfirm done, attention=%d" % bad)
